# C17: extended-Lagrangian coordinates follow the documented integrator.
import os, sys, json, math
import vcommon as V

PROP = "coq/C17/Properties_C17.v"
EXTRACT = "coq/C17/Extract_C17.v"
DRIVER = "props/C17/driver.ml"
PROGS = {"c17sim": ["props/C17/unit.cpp"]}
KB = 0.001987191          # boltzmann() of the engine simulator (real units)
TOL = 1e-9
FIELDS = ["err", "x_rep", "v_rep", "epot", "ekin", "ft", "fr", "f", "energy", "x_ext", "v_ext"]
MFIELDS = FIELDS + ["saved_x", "saved_v", "awake"]


def hx(x):
    return V.hexf(x)


def close(a, b, tol=TOL):
    if math.isnan(a) or math.isnan(b):
        return False
    return abs(a - b) <= tol * max(1.0, abs(a), abs(b))


# ------------------------------------------------------------------------------------ generator
def gen_case(r, kind):
    """one scenario: configuration + one event per engine step"""
    c = {"kind": kind}
    c["temp"] = r.choice([300.0, 150.0, 600.0, 1000.0, 75.5])
    c["tol"] = r.choice([0.5, 0.25, 0.125, 0.375, 1.0])
    c["dt"] = r.choice([0.5, 1.0, 2.0])
    c["tsf"] = r.choice([1, 1, 2, 3, 4, 5, 6, 7, 12]) if kind != "frozen" else r.choice([1, 2, 4, 3, 6])
    bigdt = c["dt"] * c["tsf"]
    c["tau"] = bigdt * r.choice([8.0, 16.0, 32.0, 12.5, 100.0])
    c["damping"] = 0.0
    c["width"] = r.choice([0.25, 0.5, 1.0, 0.125])
    c["lower"], c["upper"] = 0.0, 2.0
    c["rlo"] = c["rup"] = 0
    c["per"], c["P"], c["ctr"] = 0, 0.0, 0.0
    c["same"] = 1 if r.random() < 0.25 else 0
    c["sub"] = 1 if r.random() < 0.2 else 0
    # simulation_running() is a constant of the engine (true for MD engines, false for VMD/post-processing)
    c["running"] = 0 if kind == "norun" else 1
    c["outvel"] = 1 if r.random() < 0.3 else 0
    c["outen"] = 1 if r.random() < 0.3 else 0
    nsteps = max(r.randint(10, 28), 6 * c["tsf"] + r.randint(0, 6))
    if kind not in ("drift", "realbias", "badconfig") and r.random() < 0.4:
        # the job does not start at step 0: small offsets (not multiples of the factor) and step numbers beyond int / unsigned / double-exact ranges
        c["start_step"] = r.choice([1, 2, 3, 5, 7, 11, 2 ** 31 - 2, 2 ** 31 + 1, 2 ** 32 - 3, 2 ** 32 + 5, 2 ** 53 - 1, 2 ** 53 + 7, 2 ** 62 - 200])
    if kind == "badconfig":
        # one input check of init_extended_Lagrangian fails (or, one time in five, none does)
        which = r.choice(["temp", "tol", "tau", "damping", "none"])
        if which != "none":
            c[which] = r.choice([0.0, -1.0, -0.125]) if which != "damping" else r.choice([-1.0, -0.125])
        c["damping"] = c["damping"] if which == "damping" else 0.0
        c["tau"] = c["tau"] if which == "tau" else 16.0 * c["dt"] * c["tsf"]
        c["events"] = [{"boundary": 0, "running": 1, "x": 1.0, "fb": 0.0, "fba": 0.0} for _ in range(3 if which == "none" else 0)]
        c["gauss"] = [0.0]
        c["bad"] = which
        return c
    if kind == "drift":
        return gen_drift(r, c)
    if kind == "realbias":
        c["width"] = r.choice([0.25, 0.5])
        c["tau"] = c["dt"] * r.choice([16.0, 32.0])
        return gen_realbias(r, c)
    if kind in ("langevin", "mixed") or (kind in ("reflect", "periodic", "narrow") and r.random() < 0.4):
        c["damping"] = r.choice([1.0, 10.0, 50.5, 200.0, 0.125])
    if kind in ("reflect", "mixed", "narrow", "norun"):
        c["lower"] = V.dyadic(r, -1, 1, bits=3)
        c["upper"] = c["lower"] + (r.choice([0.0625, 0.125, 0.03125]) if kind == "narrow" else r.choice([0.5, 1.0, 1.5, 0.25]))
        m = r.random()
        c["rlo"], c["rup"] = (1, 1) if m < 0.5 else ((1, 0) if m < 0.75 else (0, 1))
    if kind == "periodic":
        c["per"] = 1
        c["P"] = r.choice([2.0, 4.0, 1.0, 360.0])
        c["ctr"] = V.dyadic(r, -2, 2, bits=1) * (c["P"] / 2)
        c["lower"], c["upper"] = c["ctr"] - c["P"] / 2, c["ctr"] + c["P"] / 2
        c["width"] = c["P"] / 16
        c["tol"] = c["P"] / r.choice([8.0, 16.0])
        if r.random() < 0.4:
            # reflecting boundaries inside the wrapping window (the premise wrap_ok of C17_reflect_inside)
            c["rlo"] = c["rup"] = 1
            c["lower"], c["upper"] = c["ctr"] - c["P"] / 4, c["ctr"] + c["P"] / 4
            if r.random() < 0.5:
                c["upper"] = c["ctr"] + c["P"] / 2 - c["P"] / 64
    # the imposed history of the variable
    span = c["upper"] - c["lower"] if kind != "periodic" else c["P"]
    lo = c["lower"] - (0.75 * span if kind in ("reflect", "mixed", "narrow") else 0.0)
    hi = c["upper"] + (0.75 * span if kind in ("reflect", "mixed", "narrow") else 0.0)
    x = V.dyadic(r, lo, hi, bits=6)
    if kind in ("reflect", "mixed", "narrow") and r.random() < 0.3:
        x = r.choice([c["lower"], c["upper"]])          # starts exactly on a boundary
    ev = []
    frozen_from = r.randint(1, 3) if kind == "frozen" else None
    gl = []
    for t in range(nsteps if kind != "frozen" else r.randint(30, 60)):
        e = {"boundary": 0, "running": c["running"]}
        if t > 0 and r.random() < (0.12 if kind != "frozen" else 0.0):
            e["boundary"] = 1
            m = r.random()
            if m < 0.55:
                pass                                      # same positions (what an engine does)
            elif m < 0.7:
                x = x + r.choice([-1, 1]) * c["width"] / 2       # exactly at the jump threshold (not a jump)
            elif m < 0.85:
                x = x + r.choice([-1, 1]) * (c["width"] / 2 + 2.0 ** -6)   # just beyond: a jump
            else:
                x = V.dyadic(r, lo, hi, bits=6)           # anywhere
        elif t > 0 and (frozen_from is None or t <= frozen_from):
            m = r.random()
            if m < 0.5:
                x = x + V.dyadic(r, -0.25, 0.25, bits=6) * span
            elif m < 0.6:
                x = V.dyadic(r, lo, hi, bits=6)
        if kind == "periodic":
            # the component reports the wrapped value; keep the imposed one inside [ctr-P/2, ctr+P/2)
            x = x - math.floor((x - c["ctr"]) / c["P"] + 0.5) * c["P"]
        e["x"] = x
        if kind == "frozen":
            e["fb"], e["fba"] = 0.0, (V.dyadic(r, -2, 2, bits=4) if r.random() < 0.3 else 0.0)
        else:
            e["fb"] = V.dyadic(r, -4, 4, bits=4) if r.random() < 0.6 else 0.0
            e["fba"] = V.dyadic(r, -4, 4, bits=4) if r.random() < 0.4 else 0.0
        ev.append(e)
        gl.append(V.dyadic(r, -3, 3, bits=5))
    c["events"] = ev
    c["gauss"] = gl
    if kind in ("free", "langevin", "reflect") and r.random() < 0.3 and len(ev) > 8:
        # the engine changes its time step in the middle of the session (update_engine_parameters)
        jj = r.randint(3, len(ev) - 3)
        if not ev[jj]["boundary"]:
            c["dt_change"] = (jj, c["dt"] * r.choice([0.5, 2.0, 0.75]))
            return c
    if kind == "free" and c["tsf"] == 1 and r.random() < 0.6 and len(ev) > 6:
        # the engine declares a new initial step in the middle of the session: the number of steps since the last update no longer
        # equals the factor and update_extended_Lagrangian() raises its factor error (the update is skipped, the bias force stays on the atoms)
        jj = r.randint(3, len(ev) - 2)
        if not ev[jj]["boundary"] and awake_steps(c)[jj - 1][1] - c.get("start_step", 0) >= 2:
            # (at least two steps done: the new relative step 1 can be taken neither for a repetition nor for the successor of the last update)
            c["setstep_at"] = (jj, r.choice([0, 100, 1000]))
    return c


def gen_drift(r, c):
    """frictionless, no boundary: the coordinate starts at X0, from step 1 on the atoms sit frozen at X1; run for at least two periods"""
    c["tsf"] = r.choice([1, 2])
    c["dt"] = r.choice([1.0, 2.0])
    per = r.choice([8.0, 16.0, 32.0])                     # period in slow steps
    c["tau"] = c["dt"] * c["tsf"] * per
    c["same"], c["sub"] = 0, 0
    X0 = V.dyadic(r, 0.25, 1.75, bits=6)
    X1 = X0 + r.choice([-1, 1]) * r.choice([0.125, 0.25, 0.5])
    n = int(2 * per) + r.randint(1, 6)
    c["events"] = [{"boundary": 0, "running": 1, "x": X0, "fb": 0.0, "fba": 0.0}] + \
                  [{"boundary": 0, "running": 1, "x": X1, "fb": 0.0, "fba": 0.0} for _ in range(n * c["tsf"])]
    c["gauss"] = [0.0]
    c["X1"] = X1
    return c


def drift_twin(c):
    """same physical orbit with half the time step (twice the number of steps)"""
    t = dict(c)
    t["dt"] = c["dt"] / 2
    n = len(c["events"]) - 1
    t["events"] = [dict(c["events"][0])] + [dict(c["events"][1]) for _ in range(2 * n)]
    t["kind"] = "drift-twin"
    return t


def gen_realbias(r, c):
    """a real bias on the extended variable instead of the scripted force: harmonic / linear (act on the coordinate), harmonicWalls
    (bypasses by default; with the user's setting on/off)"""
    c["tsf"], c["same"], c["sub"], c["damping"] = 1, 0, 0, 0.0
    c["lower"], c["upper"], c["rlo"], c["rup"], c["per"] = 0.0, 2.0, 0, 0, 0
    kind = r.choice(["harmonic", "linear", "harmonicWalls", "harmonicWalls", "harmonicWalls", "abf", "metadynamics", "abmd", "opes_metad", "histogram", "alb", "twowalls", "twowalls"])
    if kind == "twowalls":
        # two biases of the same kind on the variable, one bypassing the coordinate and one acting on it; one of them is deleted in mid-run
        bs = []
        for n_, (user, lo_, up_) in enumerate([(None, 0.75, 1.25), (False, 0.875, 1.125)]):
            k_ = r.choice([0.5, 1.0, 2.0])
            body = ["name b%d" % n_, "lowerWalls %r" % lo_, "upperWalls %r" % up_, "forceConstant %r" % k_] + ([] if user is None else ["bypassExtendedLagrangian off"])
            bs.append({"kw": "harmonicWalls", "k": k_, "user": user, "lo": lo_, "up": up_, "tsf": 1, "body": body, "name": "b%d" % n_})
        c["biases"] = bs
        x = V.dyadic(r, 0.5, 1.5, bits=6)
        ev = []
        for t in range(r.randint(12, 20)):
            if t > 0 and r.random() < 0.8:
                x = min(1.9, max(0.1, x + V.dyadic(r, -0.25, 0.25, bits=6)))
            ev.append({"boundary": 0, "running": 1, "x": x, "fb": 0.0, "fba": 0.0})
        c["events"] = ev
        c["gauss"] = [0.0]
        if r.random() < 0.7:
            c["delete_bias"] = (r.randint(3, len(ev) - 3), r.choice([0, 1]))
        return c
    generic = {"abf": ["fullSamples 2", "historyFreq 0"], "metadynamics": ["hillWeight 0.5", "hillWidth 1.0", "newHillFrequency 2"],
               "abmd": ["forceConstant 2.0", "stoppingValue 1.75"], "opes_metad": ["barrier 5", "newHillFrequency 2", "gaussianSigma 0.2"], "histogram": [],
               "alb": ["centers 1.0", "updateFrequency 4"]}
    if kind in generic:
        # the force is read from the bias object itself (its physics belongs to other properties); what is checked is its routing
        tb = r.choice([1, 1, 2, 3]) if kind not in ("abf",) else 1
        c["biases"] = [{"kw": kind, "k": 0.0, "user": None, "generic": True, "tsf": tb, "body": generic[kind] + (["timeStepFactor %d" % tb] if tb > 1 else [])}]
        c["lower"], c["upper"] = 0.0, 2.0
        x = V.dyadic(r, 0.5, 1.5, bits=6)
        ev = []
        for t in range(r.randint(12, 24)):
            if t > 0 and r.random() < 0.8:
                x = min(1.9, max(0.1, x + V.dyadic(r, -0.25, 0.25, bits=6)))
            ev.append({"boundary": 0, "running": 1, "x": x, "fb": 0.0, "fba": 0.0})
        c["events"] = ev
        c["gauss"] = [0.0]
        return c
    k = r.choice([0.5, 1.0, 2.0])
    b = {"kw": kind, "k": k, "user": None}
    if kind == "harmonic":
        b["center"] = V.dyadic(r, 0.5, 1.5, bits=4)
        b["body"] = ["centers %r" % b["center"], "forceConstant %r" % k]
    elif kind == "linear":
        b["body"] = ["centers 1.0", "forceConstant %r" % k]
    else:
        b["lo"], b["up"] = 0.75, 1.25
        b["body"] = ["lowerWalls %r" % b["lo"], "upperWalls %r" % b["up"], "forceConstant %r" % k]
        b["user"] = r.choice([None, None, True, False, False])
        if b["user"] is not None:
            b["body"].append("bypassExtendedLagrangian %s" % ("on" if b["user"] else "off"))
    b["tsf"] = r.choice([1, 1, 2, 3])
    if b["tsf"] > 1:
        b["body"].append("timeStepFactor %d" % b["tsf"])      # the bias sleeps between its steps and applies its force times the factor
    c["biases"] = [b]
    x = V.dyadic(r, 0.5, 1.5, bits=6)
    ev = []
    for t in range(r.randint(10, 20)):
        if t > 0 and r.random() < 0.7:
            x = min(1.9, max(0.1, x + V.dyadic(r, -0.25, 0.25, bits=6)))
        ev.append({"boundary": 0, "running": 1, "x": x, "fb": 0.0, "fba": 0.0})
    c["events"] = ev
    c["gauss"] = [0.0]
    return c


def bias_force(c, b, bypass, x_rep, x_actual):
    """documented force of the bias on the value it sees"""
    w = c["width"]
    v = x_actual if bypass else x_rep
    if b["kw"] == "harmonic":
        return -b["k"] / (w * w) * (v - b["center"])
    if b["kw"] == "linear":
        return -b["k"] / w
    if v < b["lo"]:
        return -b["k"] / (w * w) * (v - b["lo"])
    if v > b["up"]:
        return -b["k"] / (w * w) * (v - b["up"])
    return 0.0


def fill_real_forces(c, recs, table):
    """forces that the real biases applied at each step, each routed by its bypass flag (table = regenerated from the binary) and summed"""
    flags = []
    for b in c["biases"]:
        ent = table.get(b["kw"].lower(), (0, 0))
        flags.append(bool(ent[1]) if b["user"] is None else (b["user"] and bool(ent[0])))
    for (j_, it_, aw_), e, rec in zip(awake_steps(c), c["events"], recs):
        if rec is None:
            return False
        alive = [n_ for n_ in range(len(c["biases"])) if not (c.get("delete_bias") and c["delete_bias"][1] == n_ and j_ >= c["delete_bias"][0])]
        fb = fba = 0.0
        for kw in sorted(set(c["biases"][n_]["kw"] for n_ in alive)):
            mine = [n_ for n_ in alive if c["biases"][n_]["kw"] == kw]
            bf = [t_ for t_ in rec.get("bf", []) if t_[0] == kw.lower()]
            if len(bf) != len(mine) or any(bool(t_[2]) != flags[n_] for t_, n_ in zip(bf, mine)):
                c["bf_problem"] = "bias objects report %r, the table/user settings give bypass=%r for the %d live biases of that kind" % (bf, [flags[n_] for n_ in mine], len(mine))
                return False
            for t_, n_ in zip(bf, mine):
                b = c["biases"][n_]
                if b.get("generic"):
                    F = t_[1]
                else:
                    F = b.get("tsf", 1) * bias_force(c, b, flags[n_], rec["x_rep"], e["x"]) if it_ % b.get("tsf", 1) == 0 else 0.0
                    if not close(F, t_[1]):
                        c["bf_problem"] = "documented force %r of bias %d on the value it must see, the bias computed %r" % (F, n_, t_[1])
                        return False
                if flags[n_]:
                    fba += F
                else:
                    fb += F
        if [t_ for t_ in rec.get("bf", []) if t_[0] not in set(c["biases"][n_]["kw"].lower() for n_ in alive)]:
            c["bf_problem"] = "a deleted bias is still reported: %r" % (rec.get("bf"),)
            return False
        e["fb"], e["fba"] = fb, fba
    c["bypass"] = flags[0]
    c["nonzero_bias_force"] = any(e_["fb"] != 0.0 or e_["fba"] != 0.0 for e_ in c["events"])
    return True


def awake_steps(c):
    """(engine step index, absolute step) for the steps on which the variable is awake"""
    out = []
    it = c.get("start_step", 0)                           # the engine's first step (set_initial_step before the first calc)
    ss = c.get("setstep_at")
    for j, e in enumerate(c["events"]):
        if ss and j == ss[0]:
            it = ss[1]                                    # the engine declares a new initial step (relative step counter restarts)
        if j > 0 and not e["boundary"]:
            it += 1
        out.append((j, it, it % c["tsf"] == 0))
    return out


def step_origin(c, j):
    """absolute step of relative step 0 at engine step j (changes when the engine declares a new initial step)"""
    ss = c.get("setstep_at")
    return ss[1] if (ss and j >= ss[0]) else c.get("start_step", 0)


def cfg_lines(c):
    """xnew + the configuration of the variable (and of the real biases, if any)"""
    L = ["xnew", "config EOF", "scriptedColvarForces on",
         "colvar {", "  name v", "  timeStepFactor %d" % c["tsf"],
         "  lowerBoundary %r" % c["lower"], "  upperBoundary %r" % c["upper"], "  width %r" % c["width"],
         "  extendedLagrangian on", "  extendedFluctuation %r" % c["tol"], "  extendedTimeConstant %r" % c["tau"],
         "  extendedTemp %r" % c["temp"], "  extendedLangevinDamping %r" % c["damping"]]
    if c["rlo"]:
        L.append("  reflectingLowerBoundary on")
    if c["rup"]:
        L.append("  reflectingUpperBoundary on")
    if c["sub"]:
        L.append("  subtractAppliedForce on")
    if c.get("outvel"):
        L.append("  outputVelocity on")
    if c.get("outen"):
        L.append("  outputEnergy on")
    L += ["  distanceZ {", "    main { atomNumbers 1 }", "    ref { dummyAtom (0,0,0) }", "    axis (0,0,1)"]
    if c["per"]:
        L += ["    period %r" % c["P"], "    wrapAround %r" % c["ctr"]]
    L += ["  }", "}"]
    for b in c.get("biases", []):
        L += ["%s {" % b["kw"], "  colvars v"] + ["  " + x_ for x_ in b["body"]] + ["}"]
    L += ["EOF"]
    return L


def resumed_case(c):
    """the configuration of the job that loads the state: the same, or legally different (c['resume_cfg'])"""
    return dict(c, **c["resume_cfg"]) if c.get("resume_cfg") else c


def scenario(c, tag):
    auto = c.get("auto_state") and c.get("resume_at") is not None
    L = ["echo CASE %s" % tag, "natoms 1", "dt %r" % c["dt"], "temperature 300", "samestep %d" % c["same"],
         ("prefix %s" % tag) if auto else "prefix", "restartfreq %d" % (c["auto_state"] if auto else 0),
         "gauss " + " ".join(hx(g) for g in c["gauss"])] + cfg_lines(c)
    cfg_start = L.index("xnew")
    tsf = float(c["tsf"])
    if not c.get("running", 1):
        L.append("running 0")

    real = bool(c.get("biases"))

    def ev_lines(e, first=False, shift=0.0, force_boundary=False):
        o = ["cvf v %s %s" % ((hx(0.0), hx(0.0)) if real else (hx(tsf * e["fb"]), hx(tsf * e["fba"]))), "pos 1 0 0 %s" % hx(e["x"] + shift)]
        if (e["boundary"] and not first) or force_boundary:
            o.append("runboundary")
        o.append("xstep")
        return o
    K = c.get("resume_at")
    if c.get("start_step"):
        L.append("setstep %d" % c["start_step"])
    for j, e in enumerate(c["events"]):
        if K is not None and j == K:
            break
        if c.get("setstep_at") and j == c["setstep_at"][0]:
            L.append("setstep %d" % c["setstep_at"][1])
        if c.get("delete_bias") and j == c["delete_bias"][0]:
            L.append("script cv bias b%d delete" % c["delete_bias"][1])
        if c.get("dt_change") and j == c["dt_change"][0]:
            L.append("dt %r" % c["dt_change"][1])
        L += ev_lines(e)
    if K is not None:
        # events 0..K-1 have been executed; event K-1 is executed again by a new object that loaded the state saved after it
        st = ("%s.colvars.state" % tag) if auto else ("%s.state" % tag)
        if not auto:
            L += ["save %s %s" % ("binary" if c.get("binary") else "text", st)]      # otherwise: the file written from within calc() at the last step
        else:
            L += ["prefix", "restartfreq 0"]
        if c.get("reload"):
            # the same session goes on for two steps, then loads the state it saved (no new object)
            for dv in (0.125, -0.25):
                L += ev_lines(dict(c["events"][K - 1], x=c["events"][K - 1]["x"] + dv * c["width"], boundary=0))
            L += ["echo RESUME", "load %s" % st]
        else:
            L += ["echo RESUME"]
            if c.get("resume_cfg") and "dt" in c["resume_cfg"]:
                L += ["dt %r" % c["resume_cfg"]["dt"]]
            L += cfg_lines(resumed_case(c))
            L += ["load %s" % st]
        L += ["gauss " + " ".join(hx(g) for g in c["resume_gauss"])]
        if not c.get("running", 1):
            L.append("running 0")
        for j in range(K - 1, len(c["events"])):
            L += ev_lines(c["events"][j], first=(j == K - 1), shift=(c.get("restart_shift", 0.0) if j == K - 1 else 0.0),
                          force_boundary=(j == K - 1 and bool(c.get("reload"))))
    return L


def gauss_used(c):
    """index into c['gauss'] of the number consumed at each engine step (None if none is consumed)"""
    out = []
    g = 0
    for (j, it, aw) in awake_steps(c):
        e = c["events"][j]
        if aw and c["damping"] != 0.0 and e["running"]:
            out.append(g % len(c["gauss"]))
            g += 1
        else:
            out.append(None)
    return out


def model_line(c, restart=None):
    """every engine step is given to the model (it decides which are awake).
    restart = (first engine step of the resumed run, step origin, x_ext, v_ext)"""
    tsf = float(c["tsf"])
    ins = []
    gu = gauss_used(c)
    for (j, it, aw) in awake_steps(c):
        if restart is not None and j < restart[0]:
            continue
        e = c["events"][j]
        rnd = c["gauss"][gu[j]] if gu[j] is not None else 0.0
        st = it - (restart[1] if restart is not None else step_origin(c, j))
        xj = e["x"] + (c.get("restart_shift", 0.0) if (restart is not None and j == restart[0]) else 0.0)
        ins.append("%d %s %s %s %s %d" % (st, hx(xj), hx(tsf * e["fb"]), hx(tsf * e["fba"]), hx(rnd), e["running"]))
    if restart is None:
        rs = "0 0x0p+0 0x0p+0 0x0p+0 %d" % step_origin(c, 0)
    elif restart[2] is None:
        rs = "2 0x0p+0 0x0p+0 %s %d" % (hx(restart[4] if len(restart) > 4 else 0.0), restart[1])      # state without extended values
    else:
        rs = "1 %s %s %s %d" % (hx(restart[2]), hx(restart[3]), hx(restart[4] if len(restart) > 4 else 0.0), restart[1])
    return "%s %s %s %s %s %s %d %s %s %d %d %s %d %s %s %d %d %s %d %s" % (
        hx(KB), hx(c["temp"]), hx(c["tol"]), hx(c["tau"]), hx(c["damping"]), hx(c["dt"]), c["tsf"],
        hx(c["lower"]), hx(c["upper"]), c["rlo"], c["rup"], hx(c["width"]), c["per"], hx(c["P"]), hx(c["ctr"]),
        c["same"], c["sub"], rs, len(ins), " ".join(ins))


def parse_impl(out):
    """split the simulator's output into cases: tag -> (config_ok, [X records])"""
    res = {}
    cur = None
    for l in out.split("\n"):
        w = l.split()
        if not w:
            continue
        if w[0] == "echo" and len(w) >= 3 and w[1] == "CASE":
            cur = w[2]
            res[cur] = [False, []]
        elif cur is None:
            continue
        elif w[0] == "echo" and len(w) >= 2 and w[1] == "RESUME":
            res[cur + ":resumed"] = [False, []]
            cur = cur + ":resumed"
        elif w[0] == "LOAD":
            res[cur][0] = ("err=ok" in l)
        elif w[0] == "CONFIG":
            res[cur][0] = ("err=ok" in l)
        elif w[0] == "X":
            try:
                rec = {"it": int(w[1]), "err": int(w[2]), "awake": int(w[3])}
                names = ["x_rep", "v_rep", "epot", "ekin", "ft", "fr", "f", "fz", "energy", "x_ext", "v_ext", "k", "m", "gamma", "sigma"]
                for n_, t in zip(names, w[4:]):
                    rec[n_] = float("nan") if t == "notset" else float.fromhex(t)      # x_ext before the variable's first update
                res[cur][1].append(rec)
            except ValueError:
                res[cur][1].append(None)
        elif w[0] == "BF" and len(w) == 4 and res[cur][1] and res[cur][1][-1] is not None:
            try:
                res[cur][1][-1].setdefault("bf", []).append((w[1], float.fromhex(w[2]), int(w[3])))
            except ValueError:
                pass
    return res


def parse_model(line):
    parts = line.split("|")
    hw = parts[0].split()
    prm = [float.fromhex(t) for t in hw[:4]]
    prm.append(int(hw[4]) if len(hw) > 4 else 0)
    prm.append(int(hw[5]) if len(hw) > 5 else 1)
    steps = []
    for p in parts[1:]:
        w = p.split()
        rec = {"err": int(w[0])}
        for n_, t in zip(MFIELDS[1:-1], w[1:]):
            rec[n_] = float.fromhex(t)
        rec["awake"] = int(w[-1])
        steps.append(rec)
    return prm, steps


# ------------------------------------------------------------------------------------ oracles
def doc_params(c):
    """parameters as DOCUMENTED: k = kB T / sigma^2, m = kB T (tau / 2 pi sigma)^2"""
    k = KB * c["temp"] / c["tol"] ** 2
    m = KB * c["temp"] * (c["tau"] / (2 * math.pi * c["tol"])) ** 2
    return k, m


def pdiff(c, d):
    if c["per"]:
        return d - math.floor(d / c["P"] + 0.5) * c["P"]
    return d


def clamp(c, x):
    if c["rlo"] and x < c["lower"]:
        x = c["lower"]
    if c["rup"] and x > c["upper"]:
        x = c["upper"]
    return x


def oracles(run, c, recs, scn, first_event=0, resumed=False):
    """property checks on the implementation's own outputs; every failure is a concrete failing input.
    recs[n] belongs to engine step first_event + n (first_event > 0: a resumed run, whose first step repeats that event)."""
    rep = {"kind": "scenario", "scenario": scn, "model_case": model_line(c)}
    k, m = doc_params(c)
    tsf = float(c["tsf"])
    bigdt = c["dt"] * tsf
    aw = awake_steps(c)[first_event:]
    gu = gauss_used(c)
    if resumed and not any(a_ for (j_, it_, a_), rec_ in zip(aw, recs)):
        return                                             # the variable is not updated any more in this part
    first = ([rec_ for (j_, it_, a_), rec_ in zip(aw, recs) if a_ and rec_ is not None] + [recs[0]])[0]
    if not (close(first["k"], k, 1e-12) and close(first["m"], m, 1e-12)):
        run.violation("params:k-m", "force constant/mass %r/%r differ from the documented kB*T/sigma^2 = %r and kB*T*(tau/(2 pi sigma))^2 = %r"
                      % (first["k"], first["m"], k, m), rep)
        return
    if c["damping"] != 0.0:
        g = c["damping"] * 1e-3
        sig = math.sqrt((1 - math.exp(-2 * g * bigdt)) * m * KB * c["temp"])
        if not (close(first["gamma"], g, 1e-12) and close(first["sigma"], sig, 1e-10)):
            run.violation("params:langevin", "friction/noise amplitude %r/%r differ from gamma = %r /fs and sqrt((1-exp(-2 gamma Dt)) m kB T) = %r"
                          % (first["gamma"], first["sigma"], g, sig), rep)
            return
    prev = None          # (record, event, absolute step) of the previous awake step
    inv0 = None
    for (j, it, awake), rec in zip(aw, recs):
        e = c["events"][j]
        if rec is None:
            run.violation("output:unparsable", "unparsable output at engine step %d" % j, rep)
            return
        if not awake:
            if rec["awake"] or rec["fz"] != 0.0 or rec["f"] != 0.0 or rec["fr"] != 0.0 or rec["energy"] != 0.0 or \
               (prev and (rec["x_rep"] != prev[0]["x_rep"] or rec["x_ext"] != prev[0]["x_ext"] or rec["v_ext"] != prev[0]["v_ext"])):
                run.violation("mts:asleep-step-acts", "at engine step %d (absolute step %d, timeStepFactor %d) the sleeping variable changed or applied a force: %r"
                              % (j, it, c["tsf"], rec), rep)
                return
            continue
        if not rec["awake"]:
            run.violation("mts:awake-step-skipped", "the variable was not updated at absolute step %d (timeStepFactor %d)" % (it, c["tsf"]), rep)
            return
        x, v = rec["x_rep"], rec["v_rep"]
        rnd = c["gauss"][gu[j]] if gu[j] is not None else None
        repeated = bool(prev is not None and e["boundary"] and it == prev[2]) and not (resumed and j == first_event)
        jumped = bool(repeated and e["running"] and pdiff(c, e["x"] - prev[1]["x"]) ** 2 / c["width"] ** 2 > 0.25)
        # -- inside reflecting boundaries (reported value always; stored coordinate unless the error was raised)
        for nm, val in (("reported", x), ("stored", rec["x_ext"])):
            if nm == "stored" and rec["err"]:
                continue
            if (c["rlo"] and val < c["lower"]) or (c["rup"] and val > c["upper"]):
                sig = "reflect:jump-reinit-outside" if (jumped and nm == "reported") else "reflect:outside"
                if c["per"] and not (c["rlo"] and c["rup"] and c["ctr"] - c["P"] / 2 <= c["lower"] and c["upper"] < c["ctr"] + c["P"] / 2):
                    sig = "reflect:periodic-outside-window"
                run.violation(sig, "%s extended coordinate %r lies outside the reflecting boundaries [%s, %s] at absolute step %d%s"
                              % (nm, val, c["lower"] if c["rlo"] else "-", c["upper"] if c["rup"] else "-", it,
                                 " (re-initialised to the variable's value after a jump at a repeated step, without the clamp applied at initialisation)" if jumped else ""), rep)
                return
        if not e["running"]:
            # -- post-processing: the coordinate is the clamped value, every bias force goes to the atoms
            if not (x == clamp(c, e["x"]) and rec["x_ext"] == x and v == 0.0 and rec["v_ext"] == 0.0):
                run.violation("norun:coordinate", "no simulation running: coordinate/velocity (%r,%r) are not the clamped value %r of the variable and 0 at absolute step %d"
                              % (x, v, clamp(c, e["x"]), it), rep)
                return
            if not close(rec["fz"], tsf * (e["fb"] + e["fba"])):
                run.violation("norun:routing", "no simulation running: atom force %r is not the sum of the bias forces %r at absolute step %d"
                              % (rec["fz"], tsf * (e["fb"] + e["fba"]), it), rep)
                return
            prev = (rec, e, it)
            continue
        # -- initialisation: first step of a fresh run starts from the clamped value with zero velocity
        if prev is None and not resumed:
            if not (x == clamp(c, e["x"]) and v == 0.0):
                run.violation("init:start", "the first step starts from (%r,%r), not from the clamped value %r of the variable and zero velocity" % (x, v, clamp(c, e["x"])), rep)
                return
        if c.get("setstep_at") and j == c["setstep_at"][0] and prev is not None and prev[2] - c.get("start_step", 0) >= 2:
            # (after earlier repetitions of step 0 or 1 the new relative step 1 is a legitimate successor: no error then)
            # factor guard: relative step it - origin, last update at relative step prev: error iff their difference is neither 0 nor the factor
            run.dist("steps-raising-the-factor-error")
            if not rec["err"] or not close(rec["fz"], tsf * (e["fb"] + e["fba"])) or rec["x_ext"] != rec["x_rep"]:
                run.violation("mts:factor-error-step", "the engine restarted the step counter at %d: the step must raise the timeStepFactor error (%r), skip the update (coordinate %r -> %r) and leave the bias force on the atoms (%r, expected %r)"
                              % (c["setstep_at"][1], rec["err"], rec["x_rep"], rec["x_ext"], rec["fz"], tsf * (e["fb"] + e["fba"])), rep)
                return
            break
        # -- energies and forces of this step refer to (x_t, v_t-1/2 + half kick)
        d = pdiff(c, x - e["x"])
        F = e["fb"] - k * d
        von = v + 0.5 * bigdt * F / m
        if not close(rec["epot"], 0.5 * k * d * d) or not close(rec["ekin"], 0.5 * m * von * von):
            run.violation("time-origin:energies", "Ep/Ek = %r/%r at absolute step %d are not those of the reported coordinate %r and on-step velocity %r (expected %r/%r)"
                          % (rec["epot"], rec["ekin"], it, x, von, 0.5 * k * d * d, 0.5 * m * von * von), rep)
            return
        if not c.get("biases") and not close(rec["energy"], rec["epot"] + rec["ekin"]):
            run.violation("time-origin:engine-energy", "energy passed to the engine %r is not Ep+Ek = %r at absolute step %d" % (rec["energy"], rec["epot"] + rec["ekin"], it), rep)
            return
        # -- routing: the atoms feel the spring (times the factor) plus bypassing biases only
        fat = tsf * k * d + tsf * e["fba"]
        if not close(rec["fz"], fat):
            run.violation("routing:atoms", "atom force %r at absolute step %d is not spring*factor + bypassing bias = %r (x_ext %r, x %r, ordinary bias %r)"
                          % (rec["fz"], it, fat, x, e["x"], e["fb"]), rep)
            return
        if not close(rec["fr"], e["fb"]):
            run.violation("routing:extended", "bias force on the extended coordinate %r is not the ordinary biases' force %r at absolute step %d" % (rec["fr"], e["fb"], it), rep)
            return
        # -- reported total force
        if not c["same"]:
            want = (-k * d) if c["sub"] else F
            if not close(rec["ft"], want):
                run.violation("time-origin:total-force", "total force %r reported after absolute step %d is not the force %r that acted on the coordinate at that step"
                              % (rec["ft"], it, want), rep)
                return
        elif not close(rec["ft"], -k * d):
            run.violation("time-origin:total-force-same-step",
                          "with an engine that provides same-step total forces the reported total force %r at absolute step %d is not the system (spring) force %r on the coordinate at this step"
                          % (rec["ft"], it, -k * d), rep)
            return
        # -- the step taken: leapfrog / BAOA, reflection, wrap
        if not rec["err"]:
            vh = v + bigdt * F / m
            x1 = x + bigdt * vh / 2
            if rnd is not None:
                g = c["damping"] * 1e-3
                vh = math.exp(-g * bigdt) * vh + math.sqrt((1 - math.exp(-2 * g * bigdt)) * m * KB * c["temp"]) * rnd / m
            xn = x1 + bigdt * vh / 2
            refl = False
            if c["rlo"] and xn < c["lower"]:
                xn, refl = 2 * c["lower"] - xn, True
            elif c["rup"] and xn > c["upper"]:
                xn, refl = 2 * c["upper"] - xn, True
            if refl:
                vh = -0.5 * (v + vh)
            if c["per"]:
                xn = xn - math.floor((xn - c["ctr"]) / c["P"] + 0.5) * c["P"]
            amb = any(abs(xn - b) < 1e-9 for b in ([c["lower"]] if c["rlo"] else []) + ([c["upper"]] if c["rup"] else [])) or \
                (c["per"] and abs(abs(xn - c["ctr"]) - c["P"] / 2) < 1e-9)
            if amb:
                run.dist("boundary-ambiguous-step")
            elif not (close(rec["x_ext"], xn) and close(rec["v_ext"], vh)):
                run.violation("integrator:%s" % ("reflection" if refl else ("langevin" if rnd is not None else "leapfrog")),
                              "from (x,v)=(%r,%r) with force %r at absolute step %d the coordinate went to (%r,%r); the documented step gives (%r,%r)"
                              % (x, v, F, it, rec["x_ext"], rec["v_ext"], xn, vh), rep)
                return
        else:
            # the error is legitimate only for an overshoot by more than the interval with both boundaries reflecting
            run.dist("steps-raising-the-reflection-error")
            if not (c["rlo"] and c["rup"]):
                run.violation("reflect:error-one-sided", "the 'still outside boundaries' error was raised at absolute step %d although only one boundary is reflecting" % it, rep)
                return
        # -- what the next awake step reports is what this step stored; a repeated step reports what the first execution reported
        if prev is not None:
            if repeated:
                if not jumped and not (rec["x_rep"] == prev[0]["x_rep"] and rec["v_rep"] == prev[0]["v_rep"]):
                    run.violation("repeat:advanced", "absolute step %d was executed twice (run boundary): the second execution started from (%r,%r) instead of (%r,%r)"
                                  % (it, rec["x_rep"], rec["v_rep"], prev[0]["x_rep"], prev[0]["v_rep"]), rep)
                    return
                if jumped and not (rec["x_rep"] == clamp(c, e["x"])):
                    run.violation("repeat:jump-start", "after a jump at the repeated absolute step %d the coordinate restarts from %r, not from the (clamped) value %r of the variable"
                                  % (it, rec["x_rep"], clamp(c, e["x"])), rep)
                    return
                if jumped and rec["v_rep"] != 0.0:
                    run.violation("repeat:jump-velocity", "after a jump at the repeated absolute step %d the coordinate is re-initialised to the variable's value but keeps the velocity %r of the discarded integration (the initialisation sets 0)"
                                  % (it, rec["v_rep"]), rep)
                    return
            elif not prev[0]["err"] and not (resumed and j == first_event):
                if not (rec["x_rep"] == prev[0]["x_ext"] and rec["v_rep"] == prev[0]["v_ext"]):
                    run.violation("time-origin:value", "value/velocity reported at absolute step %d (%r,%r) are not the ones integrated at the previous update (%r,%r)"
                                  % (it, rec["x_rep"], rec["v_rep"], prev[0]["x_ext"], prev[0]["v_ext"]), rep)
                    return
        # -- frozen atoms, no ordinary bias: exact discrete invariant, no drift
        if c["kind"] in ("frozen", "drift", "drift-twin") and c["damping"] == 0.0 and not c["rlo"] and not c["rup"] and not c["per"]:
            frozen = prev is not None and prev[1]["x"] == e["x"] and e["fb"] == 0.0 and prev[1]["fb"] == 0.0
            h = k * bigdt * bigdt / (4 * m)
            inv = 0.5 * m * von * von + 0.5 * k * (1 - h) * d * d
            E = rec["epot"] + rec["ekin"]
            if frozen and inv0 is not None:
                if not close(inv, inv0[0], 1e-9):
                    run.violation("energy:drift", "frozen atoms, no bias: the discrete invariant moved from %r (absolute step %d) to %r (step %d)"
                                  % (inv0[0], inv0[1], inv, it), rep)
                    return
                if not close(E - inv, bigdt * bigdt * k * k / (8 * m) * d * d, 1e-9):
                    run.violation("energy:second-order", "Ek+Ep - invariant = %r is not dt^2 k^2/(8m) d^2 = %r at absolute step %d"
                                  % (E - inv, bigdt * bigdt * k * k / (8 * m) * d * d, it), rep)
                    return
                I0 = inv0[0]
                if h < 1 and not (I0 * (1 - 1e-9) - 1e-12 <= E <= I0 / (1 - h) * (1 + 1e-9) + 1e-12):
                    run.violation("energy:band", "frozen atoms, no bias, no friction: Ek+Ep = %r at absolute step %d left the band [I0, I0/(1-h)] = [%r, %r], h = (pi Dt/tau)^2 = %r"
                                  % (E, it, I0, I0 / (1 - h), h), rep)
                    return
            else:
                inv0 = (inv, it)
        if rec["err"]:
            break
        prev = (rec, e, it)


def energy_amplitude(c, recs):
    """max - min of Ek+Ep over the frozen part of a drift scenario (awake steps after the atoms have been frozen)"""
    E = [r_["epot"] + r_["ekin"] for (j, it, a), r_ in zip(awake_steps(c), recs) if a and j >= 2 * c["tsf"]]
    return (max(E) - min(E)) if E else 0.0


def resume_oracle(run, c, K, recs, rrecs, scn):
    """resumed run (state saved after engine step K-1, loaded by a new object that executes that step again) vs the uninterrupted run"""
    rep = {"kind": "scenario", "scenario": scn, "resume_at": K}
    aw = awake_steps(c)
    flds = ["x_rep", "v_rep", "x_ext", "v_ext", "epot", "ekin", "fr", "f", "fz", "energy", "ft"]
    saved_awake = aw[K - 1][2]
    for n, rr in enumerate(rrecs):
        j = K - 1 + n
        ur = recs[j]
        if rr is None or ur is None:
            return
        if bool(rr["awake"]) != aw[j][2]:
            run.violation("resume:awake-schedule",
                          "state saved after engine step %d (absolute step %d) and resumed: at absolute step %d the timeStepFactor-%d variable is %s"
                          % (K - 1, aw[K - 1][1], aw[j][1], c["tsf"], "awake although the step is not a multiple of the factor" if rr["awake"] else "asleep"), rep)
            return
        if not aw[j][2]:
            continue
        if ur["err"] or rr["err"]:
            if ur["err"] != rr["err"]:
                run.violation("resume:error-differs",
                              "state saved after engine step %d (absolute step %d%s) and resumed: engine step %d raises an error in only one of the resumed/uninterrupted runs"
                              % (K - 1, aw[K - 1][1], "" if saved_awake else ", on which the timeStepFactor-%d variable sleeps" % c["tsf"], j), rep)
            return
        for f_ in flds:
            if not close(rr[f_], ur[f_], 1e-8):
                sig = "resume:differs" if saved_awake else "resume:saved-on-sleeping-step"
                run.violation(sig, "state saved after engine step %d (absolute step %d%s) and resumed: at absolute step %d %s = %r, the uninterrupted run has %r"
                              % (K - 1, aw[K - 1][1], "" if saved_awake else ", on which the timeStepFactor-%d variable sleeps" % c["tsf"], aw[j][1], f_, rr[f_], ur[f_]), rep)
                return


# ------------------------------------------------------------------------------------ Langevin statistics (thorough tier)
def langevin_stat_cases(r, nsteps):
    """long thermostatted runs with frozen atoms and a seeded, standardised Gaussian stream: the stationary second moments of
    (x - X, v_(t-1/2)) must be the exact discrete fixed point (C17_langevin_stationary_covariance): kT/k, Dt kT/(2m), kT/m"""
    import random
    out = []
    for (tsf, dt, damping, per) in [(1, 1.0, 200.0, 16.0), (1, 2.0, 50.0, 8.0), (2, 1.0, 175.0, 16.0), (3, 0.5, 300.0, 12.0), (2, 2.0, 25.0, 32.0), (4, 0.5, 100.0, 8.0)]:
        c = {"kind": "langevin-stat", "temp": 300.0, "tol": r.choice([0.25, 0.5]), "dt": dt, "tsf": tsf, "tau": dt * tsf * per, "damping": damping,
             "width": 0.25, "lower": 0.0, "upper": 2.0, "rlo": 0, "rup": 0, "per": 0, "P": 0.0, "ctr": 0.0, "same": 0, "sub": 0, "running": 1}
        g = random.Random(r.randint(0, 2 ** 30))
        xs = [g.gauss(0.0, 1.0) for _ in range(nsteps)]
        m_ = sum(xs) / len(xs)
        sd = math.sqrt(sum((a - m_) ** 2 for a in xs) / len(xs))
        c["gauss"] = [(a - m_) / sd for a in xs]
        c["events"] = [{"boundary": 0, "running": 1, "x": 1.0, "fb": 0.0, "fba": 0.0} for _ in range(nsteps * tsf)]
        out.append(c)
    return out


def langevin_stat_oracle(run, c, recs, scn):
    k, m = doc_params(c)
    kT = KB * c["temp"]
    bigdt = c["dt"] * c["tsf"]
    aw = [rec for (j, it, a), rec in zip(awake_steps(c), recs) if a and rec is not None]
    aw = aw[len(aw) // 10:]
    n = len(aw)
    d = [rec["x_rep"] - 1.0 for rec in aw]
    v = [rec["v_rep"] for rec in aw]
    sxx = sum(a * a for a in d) / n
    svv = sum(a * a for a in v) / n
    sxv = sum(a * b for a, b in zip(d, v)) / n
    want = (kT / k, bigdt / 2 * kT / m, kT / m)
    run.dist("langevin-stat-runs")
    rep = {"kind": "scenario-head", "scenario": scn[:40], "steps": len(recs), "measured": (sxx, sxv, svv), "exact_fixed_point": want}
    tol = 0.12
    if abs(sxx / want[0] - 1) > tol or abs(svv / want[2] - 1) > tol or abs(sxv - want[1]) > tol * math.sqrt(want[0] * want[2]):
        run.violation("langevin:stationary-covariance",
                      "thermostatted coordinate, frozen atoms, %d updates (timeStepFactor %d, dt %r, damping %r /ps): <(x-X)^2>, <(x-X)v>, <v^2> = %r, %r, %r; "
                      "the exact stationary values of the documented scheme are %r, %r, %r (target temperature %r K)"
                      % (n, c["tsf"], c["dt"], c["damping"], sxx, sxv, svv, want[0], want[1], want[2], c["temp"]), rep)


# ------------------------------------------------------------------------------------ bypass table (regenerated from the binary)
BIAS_CONFIGS = [
    ("harmonic", ["centers 1.0", "forceConstant 1.0"]),
    ("harmonicWalls", ["lowerWalls 0.5", "upperWalls 1.5", "forceConstant 1.0"]),
    ("linear", ["centers 1.0", "forceConstant 1.0"]),
    ("histogram", []),
    ("abf", ["fullSamples 10"]),
    ("metadynamics", ["hillWeight 0.1", "hillWidth 1.0", "newHillFrequency 10"]),
    ("abmd", ["forceConstant 1.0", "stoppingValue 1.5"]),
    ("opes_metad", ["barrier 5", "newHillFrequency 10", "gaussianSigma 0.2"]),     # a positive sigma is required (unless adaptiveSigma)
    ("alb", ["centers 1.0", "updateFrequency 10"]),
]
EXT_COLVAR = ["colvar {", "  name v", "  width 0.25", "  lowerBoundary 0", "  upperBoundary 2", "  extendedLagrangian on", "  extendedFluctuation 0.5",
              "  extendedTimeConstant 16.0", "  extendedTemp 300.0", "  distanceZ {", "    main { atomNumbers 1 }", "    ref { dummyAtom (0,0,0) }",
              "    axis (0,0,1)", "  }", "}"]


def dump_bypass_table(sim, d):
    """[(bias type as the code names it, can bypass, bypasses by default)] for every bias kind that can be defined on an extended variable"""
    L = ["natoms 1", "dt 1.0", "temperature 300", "samestep 0", "prefix", "xnew", "config EOF"] + EXT_COLVAR + ["EOF"]
    for (kw, body) in BIAS_CONFIGS:
        L += ["config EOF", "%s {" % kw, "  colvars v"] + ["  " + b for b in body] + ["}", "EOF"]
    L.append("biastable")
    open(os.path.join(d, "bt.scn"), "w").write("\n".join(L) + "\n")
    rc, o, e = V.sh([sim, "bt.scn"], cwd=d)
    tab = []
    for l in o.split("\n"):
        w = l.split()
        if len(w) == 4 and w[0] == "BT":
            tab.append((w[1], int(w[2]), int(w[3])))
    return sorted(set(tab))


def write_gen_bypass(tab):
    os.makedirs(os.path.join(V.COQ, "Gen"), exist_ok=True)
    p_ = os.path.join(V.COQ, "Gen", "GenBypass.v")
    txt = "(* GENERATED by props/C17/check.py from the freshly built binary (bias kinds defined on an extendedLagrangian variable); do not edit *)\n"
    txt += "From Coq Require Import List String Bool. Import ListNotations. Local Open Scope string_scope.\n"
    txt += "(* (bias type, bypassExtendedLagrangian available, enabled by default) *)\n"
    txt += "Definition bypass_table : list (string * bool * bool) := [\n"
    txt += ";\n".join('  ("%s", %s, %s)' % (n_, "true" if a else "false", "true" if b else "false") for (n_, a, b) in tab)
    txt += "\n].\n"
    old = open(p_).read() if os.path.exists(p_) else None
    if old != txt:
        open(p_, "w").write(txt)


def presetup():
    sim = V.build_prog("c17sim", PROGS["c17sim"])
    write_gen_bypass(dump_bypass_table(sim, V.scratch("C17pre")))


# ------------------------------------------------------------------------------------ driver
def setup():
    V.extract_model("C17", EXTRACT, DRIVER, ["ocaml/fops.ml"])
    for n_, s in PROGS.items():
        V.build_prog(n_, s)


def run_impl(sim, scns, d):
    """run the scenarios through the simulator in a few processes"""
    out = {}
    nchunk = max(1, min(8, V.NPROC))
    chunks = [scns[i::nchunk] for i in range(nchunk)]
    import subprocess
    procs = []
    for ci, ch in enumerate(chunks):
        if not ch:
            continue
        p = os.path.join(d, "chunk%d.scn" % ci)
        with open(p, "w") as f:
            for (tag, L) in ch:
                f.write("\n".join(L) + "\n")
        procs.append((subprocess.Popen([sim, p], cwd=d, stdout=subprocess.PIPE, stderr=subprocess.DEVNULL, text=True), p))
    for pr, p in procs:
        o, _ = pr.communicate(timeout=900)
        out.update(parse_impl(o))
        os.remove(p)
    return out


def compare(run, c, tag, scn, impl, mline, mout, first_event=None):
    """implementation vs extracted model on one scenario (first_event not None: the resumed part of a run, starting by repeating that event)"""
    resumed = first_event is not None
    first_event = first_event or 0
    ok, recs = impl.get(tag, (False, []))
    if c.get("kind") == "badconfig":
        try:
            valid = bool(parse_model(mout)[0][5])
        except Exception:
            valid = None
        want = (c["bad"] == "none")
        run.dist("config-checks:%s" % c["bad"])
        if ok != want:
            run.violation("config:validation", "extendedTemp %r, extendedFluctuation %r, extendedTimeConstant %r, extendedLangevinDamping %r: the configuration is %s"
                          % (c["temp"], c["tol"], c["tau"], c["damping"], "accepted" if ok else "refused"), {"kind": "scenario", "scenario": scn})
            return None
        if valid is not None and valid != ok:
            run.mismatch("config:valid", {"scenario": scn, "model_case": mline}, ok, valid)
        if not ok:
            return None
    nexp = len(c["events"]) - first_event if resumed else (c.get("resume_at") or len(c["events"]))
    if not ok or len(recs) != nexp:
        run.mismatch("scenario:run", {"scenario": scn}, "config_ok=%s records=%d" % (ok, len(recs)), "%d engine steps" % nexp)
        return None
    try:
        prm, msteps = parse_model(mout)
    except Exception:
        run.mismatch("model:output", {"model_case": mline}, "-", mout[:200])
        return None
    r0 = ([x_ for x_ in recs if x_ is not None and x_["awake"]] + [recs[0]])[0]
    if r0 is not None and (not resumed or r0["awake"]):
        for nm, a, b in zip(["k", "m", "gamma", "sigma"], [r0["k"], r0["m"], r0["gamma"], r0["sigma"]], prm):
            if not close(a, b, 1e-12):
                run.mismatch("params:" + nm, {"scenario": scn, "model_case": mline}, a, b)
                return recs
    exact = True
    if len(msteps) != len(recs):
        run.mismatch("model:steps", {"model_case": mline}, len(recs), len(msteps))
        return recs
    for j, (rec, ms) in enumerate(zip(recs, msteps)):
        if rec is None:
            break
        if rec["awake"] != ms["awake"]:
            run.mismatch("step:awake", {"scenario": scn, "model_case": mline, "engine_step": j + first_event}, rec["awake"], ms["awake"])
            return recs
        for fld in FIELDS:
            if fld == "energy" and c.get("biases"):
                continue                                   # the engine's energy also contains the bias energy
            if resumed and c.get("reload") and not rec["awake"] and (fld in ("epot", "ekin", "ft") or (fld in ("x_rep", "v_rep") and math.isnan(rec["x_ext"]))):
                continue
            if resumed and c.get("stale_until_awake") and not rec["awake"] and fld in ("epot", "ekin", "ft", "x_rep", "v_rep"):
                continue                                   # stale fields of the old trajectory, shown (not used) until the first update
            a, b = rec[fld], ms[fld]
            if fld == "err":
                same = (a == b)
            else:
                same = close(a, b, 1e-8 if resumed else TOL) or (a == b) or (math.isnan(a) and math.isnan(b))
                exact = exact and (a == b)
            if not same:
                run.mismatch("step:" + fld, {"scenario": scn, "model_case": mline, "engine_step": j + first_event}, a, b)
                return recs
        if rec["fz"] != rec["f"]:
            run.mismatch("step:atom-force", {"scenario": scn, "engine_step": j + first_event}, rec["fz"], rec["f"])
            return recs
        if rec["err"]:
            break
    MSTEPS[tag + (":resumed" if resumed else "")] = msteps
    if not resumed:
        run.dist("bit-identical-scenarios" if exact else "scenarios-equal-within-1e-9")
    return recs


MSTEPS = {}


KINDS = ["badconfig", "realbias", "free", "free", "frozen", "frozen", "reflect", "reflect", "reflect", "langevin", "periodic", "mixed", "mixed", "narrow", "norun", "drift"]


def witness_cases():
    """the witnesses of the _refuted theorems of Properties_C17.v and of fixed defects, as scenarios"""
    base = {"temp": 300.0, "tol": 0.5, "dt": 1.0, "tsf": 1, "tau": 16.0, "damping": 0.0, "width": 0.25, "lower": 0.0, "upper": 1.0,
            "rlo": 1, "rup": 1, "per": 0, "P": 0.0, "ctr": 0.0, "same": 0, "sub": 0, "gauss": [0.0], "running": 1}
    # fixed by fix-C17: jump at a repeated step re-initialises the coordinate outside the reflecting boundaries
    w1 = dict(base, kind="witness-jump")
    w1["events"] = [{"boundary": 0, "running": 1, "x": 0.5, "fb": 0.0, "fba": 0.0},
                    {"boundary": 0, "running": 1, "x": 0.5, "fb": 0.0, "fba": 0.0},
                    {"boundary": 1, "running": 1, "x": 2.0, "fb": 0.0, "fba": 0.0},
                    {"boundary": 0, "running": 1, "x": 2.0, "fb": 0.0, "fba": 0.0}]
    # C17_total_force_same_step_refuted
    w2 = dict(base, kind="witness-same-step", same=1, rlo=0, rup=0)
    w2["events"] = [{"boundary": 0, "running": 1, "x": 0.5, "fb": 1.0, "fba": 0.0},
                    {"boundary": 0, "running": 1, "x": 1.0, "fb": 0.0, "fba": 0.0},
                    {"boundary": 0, "running": 1, "x": 1.0, "fb": 0.0, "fba": 0.0}]
    # state saved on a step on which a timeStepFactor-2 variable sleeps
    w3 = dict(base, kind="witness-resume-sleeping", tsf=2, rlo=0, rup=0, tau=32.0, resume_at=4)
    w3["events"] = [{"boundary": 0, "running": 1, "x": 0.5 + 0.25 * (t > 0), "fb": 0.0, "fba": 0.0} for t in range(9)]
    # C17_reflect_periodic_one_sided_refuted: periodic variable, only the lower boundary reflecting
    w4 = dict(base, kind="witness-periodic-one-sided", rlo=1, rup=0, per=1, P=4.0, ctr=0.0, lower=-1.0, upper=1.0, width=0.25, tau=64.0)
    w4["events"] = [{"boundary": 0, "running": 1, "x": 1.5, "fb": 4.0, "fba": 0.0} for t in range(24)]
    # C17_resume_before_first_update: the job starts between two steps of the variable, the state is written before its first update
    w5 = dict(base, kind="witness-resume-before-first-update", tsf=3, rlo=0, rup=0, tau=48.0, start_step=4, resume_at=2)
    w5["events"] = [{"boundary": 0, "running": 1, "x": 0.5 + 0.0625 * t, "fb": 0.5, "fba": 0.0} for t in range(12)]
    w6 = dict(w5, kind="witness-resume-before-first-update-huge", start_step=2 ** 53 + 7, tsf=7, tau=112.0, resume_at=3)
    w6["events"] = [dict(e_) for e_ in w5["events"]] + [{"boundary": 0, "running": 1, "x": 1.0, "fb": 0.0, "fba": 0.0} for t in range(12)]
    return [w1, w2, w3, w4, w5, w6]


def add_resume(r, c):
    """choose a point where the state is saved and a new object resumes (None: no suitable point)"""
    ev = c["events"]
    aw = awake_steps(c)
    def sleeping_ok(K):
        # state saved on a sleeping step: at its first evaluation the new object compares the variable with the saved value (the one of
        # the last awake step) and refuses a difference above width/2 (colvar::calc_value, not modelled): keep the history below that
        last = [j for j in range(K) if aw[j][2]]
        nxt_ = [j for j in range(K, len(ev)) if aw[j][2]]
        if not last:
            return True                                    # the state is written before the variable's first update
        return (not nxt_) or abs(pdiff(c, ev[nxt_[0]]["x"] - ev[last[-1]]["x"])) <= 0.49 * c["width"]
    cand = [K for K in range(1, len(ev)) if (aw[K - 1][2] or (r.random() < 0.7 and sleeping_ok(K)))]
    early = [K for K in range(1, len(ev)) if not any(aw[j][2] for j in range(K))]
    if early and r.random() < 0.5:
        cand = early                                        # state written before the variable's first update
    nxt = [K for K in cand if ev[K]["boundary"]]
    if nxt and r.random() < 0.4:
        cand = nxt                                           # the restart step is repeated at a run boundary
    if not cand or c["kind"] in ("drift", "drift-twin", "realbias", "badconfig") or c.get("setstep_at") or c.get("dt_change"):
        return
    c["resume_at"] = r.choice(cand)
    m = r.random()
    it_k = aw[c["resume_at"] - 1][1]
    if m > 0.7 and it_k - c.get("start_step", 0) >= 1 and it_k < 2 ** 31:
        c["auto_state"] = it_k                             # colvarsRestartFrequency: the state written from within calc() at that step
        return
    if r.random() < 0.25 and not c["per"]:
        # the job that loads the state has other parameters for the extended coordinate (the state carries only x_ext, v_ext)
        o_ = {}
        if r.random() < 0.6:
            o_["tol"] = c["tol"] * r.choice([0.5, 2.0])
        if r.random() < 0.6:
            o_["tau"] = c["tau"] * r.choice([0.5, 2.0, 1.5])
        if c["damping"] != 0.0 and r.random() < 0.6:
            o_["damping"] = c["damping"] * r.choice([0.5, 4.0])
        if o_:
            c["resume_cfg"] = o_
            return
    if r.random() < 0.25:
        c["binary"] = 1                                    # unformatted state (same data through write_state(memory_stream))
    if m < 0.15:
        c["reload"] = 1                                    # the state is loaded back into the same session two steps later
    elif m < 0.35 and c["running"]:
        # the restarted job does not have the coordinates of the state: below / exactly at / above the width/2 threshold
        c["restart_shift"] = r.choice([-1, 1]) * c["width"] * r.choice([0.25, 0.5, 0.5 + 2.0 ** -5, 1.5])


def finish_resume(c):
    K = c.get("resume_at")
    if K is None:
        return
    gu = gauss_used(c)
    nxt = [g for g in gu[K - 1:] if g is not None]
    st = nxt[0] if nxt else 0
    c["resume_gauss"] = c["gauss"][st:] + c["gauss"][:st]


def check(run):
    r = V.rng("C17")
    quick = run.tier == "quick"
    run.cov["rule"] = ("scenarios through the engine simulator: one exact distanceZ variable with extendedLagrangian, imposed value history (dyadic), "
                       "imposed force histories on the extended coordinate and (bypassing) on the actual value, timeStepFactor 1-4, friction 0 / >0 with the "
                       "controlled Gaussian source, reflecting boundaries on either/both sides (starts on/outside a boundary, narrow intervals that raise the error), "
                       "periodic variable, repeated steps at run boundaries (same value, exactly at / just beyond the jump threshold), simulation running or not (per scenario), "
                       "same-step and lagged total forces, subtractAppliedForce, state saved at a random step and resumed by a new object (about half of the scenarios), "
                       "frictionless frozen-atom orbits run with dt and dt/2. distinct = distinct scenario; non-trivial = at least 5 integrated steps and a non-zero atom force")
    run.assumptions += ["theorems are about the R instance of the model; the tie runs the float instance of the same extracted code (same operation order: results are "
                        "expected bit-identical; accepted within relative 1e-9; 1e-8 after a 14-digit text state)",
                        "external (alchemical) extended variables, non-scalar variables, hidden Jacobian forces and the time-step-factor mismatch error path are outside the model/tie",
                        "on steps on which a timeStepFactor>1 variable sleeps the model has no transition; the check verifies on the implementation that nothing changes and no force is applied",
                        "simulation_running() is a constant of the engine; switching it during a session (no engine does) is outside the property and the tie"]
    # the bypass table is dumped from the freshly built binary BEFORE the proofs are checked (coq/Gen/GenBypass.v)
    sim0 = V.build_prog("c17sim", PROGS["c17sim"])
    tab = dump_bypass_table(sim0, V.scratch("C17pre"))
    write_gen_bypass(tab)
    table = {n_: (a_, b_) for (n_, a_, b_) in tab}
    st = V.standard_start(run, PROP, EXTRACT, DRIVER, PROGS)
    if st is None:
        return
    model, exes = st
    sim = os.environ.get("VERIF_C17_SIM", exes["c17sim"])    # (coverage measurements: an instrumented build of the same harness)
    d = V.scratch("C17")
    # documented: only harmonicWalls and histogram implement bypassExtendedLagrangian, harmonicWalls enables it by default
    documented = {"harmonicwalls": (1, 1), "histogram": (1, 0)}
    for kw, body in BIAS_CONFIGS:
        n_ = kw.lower()
        if n_ not in table:
            run.mismatch("bypass:table-entry", {"bias": kw}, "bias kind could not be defined on an extended variable", "defined")
        elif table[n_] != documented.get(n_, (0, 0)):
            run.violation("bypass:table-differs-from-documentation",
                          "bias kind %s: bypassExtendedLagrangian (available, default) = %r in the binary, the documentation says %r"
                          % (kw, table[n_], documented.get(n_, (0, 0))), {"kind": "table", "table": tab})
    run.dist("bypass-table-entries", len(tab))
    cases = witness_cases()
    # corpus
    cdir = os.path.join(V.ROOT, "corpus")
    if os.path.isdir(cdir):
        for f in sorted(os.listdir(cdir)):
            if f.startswith("C17_") and f.endswith(".json"):
                cases.append(json.load(open(os.path.join(cdir, f))))
    n = 280 if quick else 30000
    for kk in range(n):
        c = gen_case(r, KINDS[kk % len(KINDS)] if kk < 4 * len(KINDS) else r.choice(KINDS))
        if r.random() < 0.5:
            add_resume(r, c)
        cases.append(c)
        if c["kind"] == "drift":
            cases.append(drift_twin(c))
    for c in cases:
        c.setdefault("running", 1)
        finish_resume(c)
    # every case is run uninterrupted; cases with resume_at are run a second time with save / new object / load
    jobs = []          # (tag, case, scenario lines, model line, first_event)
    for i, c in enumerate(cases):
        cu = dict(c)
        cu.pop("resume_at", None)
        jobs.append(("c%d" % i, c, scenario(cu, "c%d" % i), model_line(cu if not c.get("dt_change") else dict(cu, events=cu["events"][:c["dt_change"][0]])), 0))
    scns = [(tag, L) for (tag, c, L, ml, fe) in jobs] + \
           [("r%d" % i, scenario(c, "r%d" % i)) for i, c in enumerate(cases) if c.get("resume_at") is not None]
    impl = run_impl(sim, scns, d)
    for n_, (tag, c, L, ml, fe) in enumerate(jobs):
        if c.get("biases"):
            ok_, recs_ = impl.get(tag, (False, []))
            if ok_ and len(recs_) == len(c["events"]) and fill_real_forces(c, recs_, table):
                jobs[n_] = (tag, c, L, model_line(c), fe)
                if len(c["biases"]) > 1:
                    run.dist("real-bias: two biases of one kind (bypassing + on the coordinate)%s" % (", one deleted in mid-run" if c.get("delete_bias") else ""))
                if c["biases"][0].get("tsf", 1) > 1:
                    run.dist("real-bias with its own timeStepFactor (sleeps between its steps)")
                run.dist("real-bias:%s:%s%s" % (c["biases"][0]["kw"], "bypass" if c["bypass"] else "on-coordinate", "" if c["nonzero_bias_force"] else ":zero-force"))
            elif c.get("bf_problem"):
                run.violation("routing:bias-flag-or-force", "bias %s on an extended variable: %s" % (c["biases"][0]["kw"], c["bf_problem"]), {"kind": "scenario", "scenario": L})
    rc, mout, e = V.run_lines(model, [ml for (tag, c, L, ml, fe) in jobs])
    allrecs = {}
    amps = {}
    dtjobs = []
    for i, (tag, c, scn, ml, fe) in enumerate(jobs):
        if c.get("dt_change"):
            # part 1 (old time step) here; part 2 continues in the model from the integrated values with the new time step
            J = c["dt_change"][0]
            ok_, recs_ = impl.get(tag, (False, []))
            run.dist("kind:" + c["kind"])
            run.dist("engine time step changed in mid-session")
            if not ok_ or len(recs_) != len(c["events"]) or any(x is None for x in recs_):
                run.mismatch("scenario:run", {"scenario": scn}, "config_ok=%s records=%d" % (ok_, len(recs_)), "%d engine steps" % len(c["events"]))
                run.count(tag, False)
                continue
            ca = dict(c, events=c["events"][:J])
            compare(run, ca, tag, scn, {tag: (ok_, recs_[:J])}, ml, mout[i] if i < len(mout) else "")
            oracles(run, ca, recs_[:J], scn)
            run.count(tag, True)
            if not any(x["err"] for x in recs_[:J]) and not math.isnan(recs_[J - 1]["x_ext"]):
                dtjobs.append((i, tag, J, recs_))
            continue
        recs = compare(run, c if c.get("resume_at") is None else dict(c, resume_at=None), tag, scn, impl, ml, mout[i] if i < len(mout) else "")
        run.dist("kind:" + c["kind"])
        run.dist("tsf=%d" % c["tsf"])
        if c.get("start_step"):
            run.dist("first step of the job: %s" % ("< 2^31" if c["start_step"] < 2 ** 31 else ("< 2^53" if c["start_step"] < 2 ** 53 else ">= 2^53")))
        if recs is None or any(x is None for x in recs):
            run.count(tag, False)
            continue
        allrecs[i] = recs
        nint = sum(1 for (j, it, a) in awake_steps(c) if a and c["events"][j]["running"])
        nerr = sum(1 for x in recs if x["err"])
        nb = sum(1 for e_ in c["events"] if e_["boundary"])
        run.dist("scenarios-with-error" if nerr else "scenarios-without-error")
        run.dist("repeated-steps", nb)
        run.dist("integrated-steps", nint)
        run.count(tag, nint >= 5 and any(x["fz"] != 0.0 for x in recs))
        oracles(run, c, recs, scn)
        if c["kind"] in ("drift", "drift-twin"):
            amps[i] = energy_amplitude(c, recs)
        if i in (3, 4, 7):
            run.sample({"kind": c["kind"], "scenario_head": scn[:34], "first_records": [{k_: v_ for k_, v_ in x.items()} for x in recs[:3]]})
    # -- time step changed in mid-session: from there on the integrator (kicks, drifts, damping AND noise amplitude) uses the new one
    dlines = []
    for (i, tag, J, recs_) in dtjobs:
        c = cases[i]
        c2 = dict(c, dt=c["dt_change"][1])
        dlines.append(model_line(c2, restart=(J, awake_steps(c)[J - 1][1], recs_[J - 1]["x_ext"], recs_[J - 1]["v_ext"], c["events"][J - 1]["x"])))
    rc, dmout, e = V.run_lines(model, dlines) if dlines else (0, [], "")
    for n_, (i, tag, J, recs_) in enumerate(dtjobs):
        c = cases[i]
        c2 = dict(c, dt=c["dt_change"][1], stale_until_awake=1)
        compare(run, c2, tag, jobs[i][2], {tag: (True, recs_[J:])}, dlines[n_], dmout[n_] if n_ < len(dmout) else "", first_event=J)
        oracles(run, c2, recs_[J:], jobs[i][2], first_event=J, resumed=True)
    # -- second-order scaling of the energy fluctuation: halving the time step divides the amplitude by four
    for i, c in enumerate(cases):
        if c["kind"] == "drift" and i in amps and (i + 1) in amps and cases[i + 1]["kind"] == "drift-twin":
            a1, a2 = amps[i], amps[i + 1]
            run.dist("drift-pairs")
            if a2 <= 0 or not (3.0 <= a1 / a2 <= 5.5):
                run.violation("energy:scaling", "frictionless frozen-atom orbit: the amplitude of Ek+Ep is %r with dt=%r and %r with dt/2 (ratio %r, second order means about 4)"
                              % (a1, c["dt"], a2, (a1 / a2) if a2 else float("inf")), {"kind": "scenario", "scenario": jobs[i][2], "twin": jobs[i + 1][2]})
    # -- resumed runs: the saved state vs the model's saved_xv (tie), the resumed run against the uninterrupted run (oracle) and
    #    against the model started from the saved values (tie); sleeping steps included
    rjobs = [(i, "r%d" % i) for i, c in enumerate(cases) if c.get("resume_at") is not None and i in allrecs]
    scn_by_tag = dict(scns)
    rlines, rinfo, rcases = [], [], []
    for (i, tag) in rjobs:
        c = cases[i]
        K = c["resume_at"]
        aw = awake_steps(c)
        sx = sv = xs = None
        try:
            for l_ in open(os.path.join(d, ("%s.colvars.state" if c.get("auto_state") else "%s.state") % tag)):
                w_ = l_.split()
                if len(w_) == 2 and w_[0] == "extended_x":
                    sx = float(w_[1])
                if len(w_) == 2 and w_[0] == "extended_v":
                    sv = float(w_[1])
                if len(w_) == 2 and w_[0] == "x":
                    xs = float(w_[1])
        except (OSError, ValueError):
            pass
        if c.get("binary") and not c.get("auto_state"):
            ms_ = MSTEPS.get("c%d" % i)
            if ms_ is not None and len(ms_) >= K:
                sx = None if math.isnan(ms_[K - 1]["saved_x"]) else ms_[K - 1]["saved_x"]
                sv = None if math.isnan(ms_[K - 1]["saved_x"]) else ms_[K - 1]["saved_v"]
                last_ = [j_ for j_ in range(K) if aw[j_][2]]
                xs = c["events"][last_[-1]]["x"] if last_ else 0.0
        rinfo.append((sx, sv, xs))
        cs = resumed_case(c)
        if c.get("restart_shift"):
            # the restarted job computes the restart step from other coordinates
            cs = dict(c, events=[dict(e_) for e_ in c["events"]])
            cs["events"][K - 1]["x"] += c["restart_shift"]
            cs.pop("restart_shift")
        rcases.append(cs)
        rlines.append(model_line(cs, restart=(K - 1, aw[K - 1][1], sx if (sx is not None and sv is not None) else None, sv, xs if xs is not None else 0.0)))
    rc, rmout, e = V.run_lines(model, rlines) if rlines else (0, [], "")
    for n_, (i, tag) in enumerate(rjobs):
        c = cases[i]
        cs = rcases[n_]
        K = c["resume_at"]
        scn = scn_by_tag[tag]
        aw = awake_steps(c)
        ok1, recs1 = impl.get(tag, (False, []))
        ok2, recs2 = impl.get(tag + ":resumed", (False, []))
        run.dist("resumed-scenarios")
        run.dist("resumed: state saved on %s step" % ("an awake" if aw[K - 1][2] else "a sleeping"))
        if K < len(c["events"]) and c["events"][K]["boundary"]:
            run.dist("resumed: restart step repeated at a run boundary")
        nfirst = K + (2 if c.get("reload") else 0)
        if not ok1 or not ok2 or len(recs1) != nfirst or any(x is None for x in recs1 + recs2):
            run.mismatch("scenario:resume-run", {"scenario": scn}, "ok=%s/%s records=%d/%d" % (ok1, ok2, len(recs1), len(recs2)), "%d + %d engine steps" % (nfirst, len(c["events"]) - K + 1))
            continue
        if any(x["err"] for x in recs1):
            run.dist("resume-after-error-skipped")
            continue
        sx, sv, xs = rinfo[n_]
        ms = MSTEPS.get("c%d" % i)
        m_none = bool(ms is not None and len(ms) >= K and math.isnan(ms[K - 1]["saved_x"]))
        if xs is None or ((sx is None) != (sv is None)) or ((sx is None) != m_none and ms is not None):
            run.mismatch("state:extended-missing", {"scenario": scn}, "x/extended_x/extended_v in the saved state: %r/%r/%r" % (xs, sx, sv),
                         "extended values %s" % ("absent (coordinate not yet set)" if m_none else "present"))
            continue
        if sx is None:
            run.dist("resumed: state written before the variable's first update (no extended values)")
        elif ms is not None and len(ms) >= K:
            if not (close(sx, ms[K - 1]["saved_x"], 1e-12) and close(sv, ms[K - 1]["saved_v"], 1e-12)):
                run.mismatch("state:saved_xv", {"scenario": scn, "model_case": jobs[i][3], "engine_step": K - 1}, (sx, sv), (ms[K - 1]["saved_x"], ms[K - 1]["saved_v"]))
        if c.get("binary") and not c.get("auto_state"):
            run.dist("resumed: unformatted (binary) state")
        if c.get("reload"):
            run.dist("resumed: state loaded back into the same session")
        if c.get("auto_state"):
            run.dist("resumed: from the automatic restart file (written inside calc())")
        # -- the consistency check of the restarted job
        shift = c.get("restart_shift", 0.0)
        want_refused = bool(aw[K - 1][2] and c["running"] and pdiff(c, shift) ** 2 / c["width"] ** 2 > 0.25)
        rep = {"kind": "scenario", "scenario": scn, "resume_at": K}
        try:
            m_refused = bool(parse_model(rmout[n_])[0][4])
        except Exception:
            m_refused = None
        if shift:
            run.dist("resumed: restarted from other coordinates (%s)" % ("refused" if want_refused else "accepted"))
        other_cfg = bool(c.get("resume_cfg")) and not shift       # (with other parameters the first step may legitimately raise the reflection error)
        # an error at the first step is a refusal unless the model (which does not know the refusal in its step) raises the reflection error there
        try:
            m_first_err = bool(parse_model(rmout[n_])[1][0]["err"])
        except Exception:
            m_first_err = False
        impl_refused = bool(recs2[0]["err"]) and (want_refused or not m_first_err)
        if impl_refused != want_refused and not other_cfg:
            if want_refused:
                run.violation("resume:wrong-state-accepted", "the restarted job computes %r at the restart step, the state file has %r (difference above width/2 = %r): accepted"
                              % (cs["events"][K - 1]["x"], xs, c["width"] / 2), rep)
            else:
                run.violation("resume:refused", "state saved after engine step %d (absolute step %d, variable %s) and resumed with coordinates giving %r at the first evaluation (saved value %r, width %r): the restart is refused"
                              % (K - 1, aw[K - 1][1], "awake" if aw[K - 1][2] else "asleep", cs["events"][K - 1]["x"], xs, c["width"]), rep)
            continue
        if m_refused is not None and m_refused != impl_refused and aw[K - 1][2] and not other_cfg:
            run.mismatch("restart:refused", {"scenario": scn, "model_case": rlines[n_]}, recs2[0]["err"], m_refused)
            continue
        if want_refused:
            continue
        if c.get("resume_cfg"):
            run.dist("resumed: by a job with other extended-Lagrangian parameters (%s)" % ",".join(sorted(c["resume_cfg"])))
        elif not shift:
            resume_oracle(run, c, K, allrecs[i], recs2, scn)
        impl_r = {tag: (ok2, recs2)}
        compare(run, cs, tag, scn, impl_r, rlines[n_], rmout[n_] if n_ < len(rmout) else "", first_event=K - 1)
        oracles(run, cs, recs2, scn, first_event=K - 1, resumed=True)
    # -- hideJacobian and extendedLagrangian exclude each other (the silent Jacobian correction of update_forces_energy never meets the extended path)
    def hj_scn(tag_, ext, hj):
        return ["echo CASE %s" % tag_, "natoms 2", "dt 1.0", "temperature 300", "samestep 0", "prefix", "restartfreq 0", "xnew", "config EOF",
                "colvar {", "  name v", "  width 0.25"] + (["  extendedLagrangian on", "  extendedFluctuation 0.5", "  extendedTemp 300"] if ext else []) + \
               ["  lowerBoundary 0", "  upperBoundary 4", "  distance {", "    group1 { atomNumbers 1 }", "    group2 { atomNumbers 2 }", "  }", "}",
                "abf {", "  colvars v", "  fullSamples 10"] + (["  hideJacobian on"] if hj else []) + ["}", "EOF"]
    hj = run_impl(sim, [("hj_both", hj_scn("hj_both", 1, 1)), ("hj_only", hj_scn("hj_only", 0, 1)), ("hj_ext", hj_scn("hj_ext", 1, 0))], d)
    got = tuple(bool(hj.get(t_, (False, []))[0]) for t_ in ("hj_both", "hj_only", "hj_ext"))
    run.dist("hideJacobian-exclusion-checked")
    if got != (False, True, True):
        run.violation("config:hideJacobian-extendedLagrangian", "ABF on a distance variable with (hideJacobian+extendedLagrangian, hideJacobian, extendedLagrangian) is accepted = %r; expected (False, True, True): "
                      "the two options exclude each other" % (got,), {"kind": "scenario", "scenario": hj_scn("hj_both", 1, 1)})
    # -- thorough tier: stationary second moments of the thermostatted coordinate on the implementation alone
    if not quick:
        lcs = langevin_stat_cases(r, 12000)
        lscn = [("L%d" % i, scenario(c_, "L%d" % i)) for i, c_ in enumerate(lcs)]
        limpl = run_impl(sim, lscn, d)
        for i, c_ in enumerate(lcs):
            ok_, recs_ = limpl.get("L%d" % i, (False, []))
            if not ok_ or len(recs_) != len(c_["events"]):
                run.mismatch("scenario:langevin-stat", {"scenario": lscn[i][1][:40]}, "ok=%s records=%d" % (ok_, len(recs_)), "%d engine steps" % len(c_["events"]))
                continue
            langevin_stat_oracle(run, c_, recs_, lscn[i][1])
    run.cov["correspondence"].update({"scenarios": len(cases) + len(rjobs), "engine_steps": sum(len(c["events"]) for c in cases)})


def replay(path):
    j = json.load(open(path))
    print(json.dumps(j, indent=1)[:4000])
    rp = j["replay"]
    if rp.get("kind") == "correspondence":
        rp = rp["first"][0]["case"]
    if "scenario" in rp:
        sim = V.build_prog("c17sim", PROGS["c17sim"])
        d = V.scratch("C17replay")
        open(os.path.join(d, "r.scn"), "w").write("\n".join(rp["scenario"]) + "\n")
        print("impl :\n" + V.sh([sim, "r.scn"], cwd=d)[1])
    if "model_case" in rp:
        model = V.extract_model("C17", EXTRACT, DRIVER, ["ocaml/fops.ml"])
        print("model:\n" + "\n".join(V.run_lines(model, [rp["model_case"]])[1]).replace(" | ", "\n  | "))
    return 0
