// C17 harness: the engine simulator (harness/vsim.h) plus
//  * a force callback (proxy->run_force_callback(), enabled by `scriptedColvarForces on`) that adds a
//    prescribed force to a variable through colvar::add_bias_force (what an ordinary bias does) and
//    colvar::add_bias_force_actual_value (what a bias that bypasses the extended coordinate does);
//  * `xstep`: one engine step, then ONE line with everything the extended-Lagrangian code reports
//    for the first variable, read from the object in hex.
// Commands added: xnew | cvf <name> <f_ext> <f_actual> | running 0|1 | xstep | biastable (nothing else changes).
#include <cstdio>
#include <cstdlib>
#include <cstring>
#include <cmath>
#include <iostream>
#include <fstream>
#include <sstream>
#include <string>
#include <vector>
#include <map>
#include <list>
#include <set>
#include <memory>
#include <algorithm>
#include <functional>
#include <thread>
#include <mutex>
#include <iomanip>
#include <limits>
#include <unordered_map>
#include <unordered_set>
#include <array>
#include <deque>
#include <numeric>
#include <typeinfo>
#include <cassert>
#include <ctime>
#include <cerrno>
#include <climits>
#include <cstdint>
#include <cstddef>
#include <exception>
#include <stdexcept>
#include <utility>
#include <iterator>
#include <atomic>
#include <chrono>
#include <condition_variable>
#include <future>
#include <random>
#include <tuple>
#include <type_traits>
#include <initializer_list>
#include <omp.h>
#define private public
#define protected public
#include "vsim.h"
#undef private
#undef protected

struct c17_proxy : public vsim_proxy {
  std::map<std::string, std::pair<double, double> > cvf;
  c17_proxy(vsim_engine *e, bool q) : vsim_proxy(e, q) {}
  int run_force_callback() override
  {
    for (auto &kv : cvf) {
      colvar *c = cvm::colvar_by_name(kv.first);
      if (!c || !c->is_enabled()) continue;   // a sleeping variable gets no force (as from a bias with the same factor)
      c->add_bias_force(colvarvalue(kv.second.first));
      c->add_bias_force_actual_value(colvarvalue(kv.second.second));
    }
    return COLVARS_OK;
  }
};

struct c17_session : public vsim_session {
  c17_session(std::ostream *o) : vsim_session(o) {}
  bool exec_extra(std::string const &cmd, std::vector<std::string> const &a, std::istream &) override
  {
    std::ostream &o = *out;
    if (cmd == "xnew") {
      if (proxy) { delete proxy; proxy = NULL; }
      proxy = new c17_proxy(&eng, quiet);
      if (logfile.is_open()) proxy->logos = &logfile;
      o << "FRESH\n";
      return true;
    }
    if (cmd == "cvf") {
      static_cast<c17_proxy *>(proxy)->cvf[a[0]] = std::make_pair(num(a[1]), num(a[2]));
      return true;
    }
    if (cmd == "running") {
      proxy->b_simulation_running = atoi(a[0].c_str()) != 0;
      return true;
    }
    if (cmd == "biastable") {
      // for every bias already defined: type, whether it CAN bypass the extended coordinate and whether it DOES
      for (colvarbias *b : proxy->colvars->biases) {
        o << "BT " << b->bias_type << " " << (b->is_available(colvardeps::f_cvb_bypass_ext_lagrangian) ? 1 : 0)
          << " " << (b->is_enabled(colvardeps::f_cvb_bypass_ext_lagrangian) ? 1 : 0) << "\n";
      }
      return true;
    }
    if (cmd == "xstep") {
      cvm::clear_error();
      int err = proxy->step();
      int bits = err | cvm::get_error();
      colvar *c = (*(proxy->colvars->variables()))[0];
      double fz = 0.0;
      for (size_t i = 0; i < proxy->get_atom_ids()->size(); i++)
        if ((*proxy->get_atom_ids())[i] == 0) fz = (*proxy->get_atom_applied_forces())[i].z;
      bool awake = false;
      for (colvar *v : *(proxy->colvars->variables_active())) if (v == c) awake = true;
      o << "X " << cvm::step_absolute() << " " << (bits == COLVARS_OK ? 0 : 1) << " " << (awake ? 1 : 0)
        << " " << vs_hex(c->value()) << " " << vs_hex(c->velocity())
        << " " << vs_hex(c->potential_energy) << " " << vs_hex(c->kinetic_energy)
        << " " << vs_hex(c->total_force()) << " " << vs_hex(c->applied_force())
        << " " << vs_hex(c->f) << " " << vs_hex(fz) << " " << vs_hex(proxy->bias_energy)
        << " " << vs_hex(c->x_ext) << " " << vs_hex(c->v_ext)
        << " " << vs_hex(c->ext_force_k) << " " << vs_hex(c->ext_mass) << " " << vs_hex(c->ext_gamma) << " " << vs_hex(c->ext_sigma)
        << "\n";
      // the force every bias computed for its first variable at this step (what communicate_forces() routed), and its bypass flag
      for (colvarbias *b : proxy->colvars->biases) {
        double F = 0.0;
        if (b->is_enabled(colvardeps::f_cvb_apply_force) && b->is_enabled() && b->colvar_forces.size())
          F = cvm::real(b->get_time_step_factor()) * b->colvar_forces[0].real_value;
        o << "BF " << b->bias_type << " " << vs_hex(F) << " " << (b->is_enabled(colvardeps::f_cvb_bypass_ext_lagrangian) ? 1 : 0) << "\n";
      }
      cvm::clear_error();
      return true;
    }
    return false;
  }
};

int main(int argc, char **argv)
{
  c17_session s(&std::cout);
  if (argc > 1 && std::string(argv[1]) != "-") {
    std::ifstream f(argv[1]);
    if (!f) { std::cerr << "cannot open " << argv[1] << "\n"; return 2; }
    s.run(f);
  } else {
    s.run(std::cin);
  }
  std::cout.flush();
  return 0;
}
