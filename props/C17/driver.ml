(* C17 model driver.  One case per line:
   kB temp tol tau damping dt tsf lower upper rlo rup width per P ctr same sub restart(0|1|2: 2 = state without extended values) rx rv xsaved it0 n {step x fb fba rnd running}*n
   EVERY engine step is given (relative step numbers; it0 = absolute step of relative step 0); the model decides which are awake.
   Output: "k m gamma sigma refused valid" (refused: the restart consistency check rejects the first input) then for every step " | err x_rep v_rep epot ekin ft fr f energy x_ext v_ext saved_x saved_v awake". *)
open Model
open X_fops
let pi = 3.14159265358979323846
let () =
  try
    while true do
      let line = input_line stdin in
      let w = Array.of_list (words line) in
      if Array.length w > 0 then begin
        let p = ref 0 in
        let next () = let s = w.(!p) in Stdlib.incr p; s in
        let nf () = fl (next ()) in
        let ni () = int_of_string (next ()) in
        let nb () = ni () <> 0 in
        let kB = nf () in let temp = nf () in let tol = nf () in let tau = nf () in let damping = nf () in
        let dt = nf () in let tsf = ni () in let lower = nf () in let upper = nf () in
        let rlo = nb () in let rup = nb () in let width = nf () in
        let per = nb () in let pp = nf () in let ctr = nf () in
        let same = nb () in let sub = nb () in
        let restart_i = ni () in let restart = restart_i <> 0 in let restart2 = restart_i = 2 in let rx = nf () in let rv = nf () in let xsaved = nf () in
        let it0 = ni () in
        let n = ni () in
        let c = { c_kB = kB; c_temp = temp; c_tol = tol; c_tau = tau; c_damping = damping; c_dt = dt;
                  c_tsf = z_of_int tsf; c_lower = lower; c_upper = upper; c_refl_lo = rlo; c_refl_up = rup;
                  c_width = width; c_period = (if per then Some (pp, ctr) else None);
                  c_same_step = same; c_subtract = sub } in
        let prm = init_params fops pi c in
        let s0 = if restart2 then restart_state_opt fops None else if restart then restart_state fops rx rv else init_state fops in
        let ins = List.init n (fun _ ->
          let st = ni () in let x = nf () in let fb = nf () in let fba = nf () in let rnd = nf () in let run = nb () in
          { i_step = z_of_int st; i_x = x; i_fb = fb; i_fba = fba; i_rnd = rnd; i_running = run }) in
        let tr = mtrace fops c prm (z_of_int it0) s0 ins in
        let b = Buffer.create 1024 in
        let refused = match ins with i0 :: _ -> restart && restart_refused fops c xsaved true i0 | [] -> false in
        Buffer.add_string b (Printf.sprintf "%s %s %s %s %d" (hex prm.p_k) (hex prm.p_m) (hex prm.p_gamma) (hex prm.p_sigma) (if refused then 1 else 0));
        Buffer.add_string b (Printf.sprintf " %d" (if valid_config fops c then 1 else 0));
        List.iter2 (fun i s ->
          let xe = match s.s_x_ext with Some x -> x | None -> nan in
          let (sx, sv) = match saved_xv_opt fops s i.i_step with Some (a, b) -> (a, b) | None -> (nan, nan) in
          Buffer.add_string b (Printf.sprintf " | %d %s %s %s %s %s %s %s %s %s %s %s %s %d" (if s.s_err then 1 else 0)
            (hex s.s_x_rep) (hex s.s_v_rep) (hex s.s_epot) (hex s.s_ekin) (hex s.s_ft_rep) (hex s.s_fr) (hex s.s_f)
            (hex (menergy fops c (z_of_int it0) i s)) (hex xe) (hex s.s_v_ext) (hex sx) (hex sv)
            (if awake_at c (z_of_int it0) i then 1 else 0))) ins tr;
        print_endline (Buffer.contents b)
      end
    done
  with End_of_file -> ()
