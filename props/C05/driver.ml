(* C05 model driver: runs the extracted MetaModel at floats on one scenario per input line.
   Input :  META nd {kind periodic period sigma width gperiodic expand hardlo hardup lower upper nx}*nd
                 weight hill_width freq gfreq use_grids keep wt bias_temp kb step_zero dumpgrid
                 ebmeta equil_steps ntarget target_1..target_ntarget
                 nevents { S it rel cont x.. | W | R | L | B {lower upper nx}*nd | C sigma*nd hillWidth weight freq }*nevents
            kind = 0 scalar (1 component), 1 3-vector, 2 unit vector (3 components), 3 quaternion (4); x.. = all components of
            all variables; W = the state is written (write_state_data); R = restart (state written, read by a fresh
            instance); B = restart with rebinGrids and the new boundaries
   Output:  one line; steps separated by " | ", fields of a step by " ; ":
            S energy f.. ; H nold nnew {it W c..}* ; O noffnew {it W c..}* ; G {nx lower upper}* [; E v* ; D v*] *)
open Model
open X_fops
let rec nat_of_int (n : int) : nat = if n <= 0 then O else S (nat_of_int (n - 1))

let rec all_indices (nx : int list) : int list list =
  match nx with
  | [] -> [[]]
  | n :: r ->
    let tails = all_indices r in
    List.concat (List.init (max n 0) (fun i -> List.map (fun t -> i :: t) tails))

let hill_str (h : float hill) =
  String.concat " " (string_of_int (int_of_z h.h_it) :: hex h.h_W :: List.map hex (List.concat h.h_c @ h.h_s))

let () =
  try
    while true do
      let line = input_line stdin in
      let w = Array.of_list (words line) in
      if Array.length w > 0 then begin
        let p = ref 1 in
        let next () = let s = w.(!p) in Stdlib.incr p; s in
        let nf () = fl (next ()) in
        let ni () = int_of_string (next ()) in
        let nb () = ni () <> 0 in
        (match w.(0) with
         | "META" ->
           let nd = ni () in
           let vg = List.init nd (fun _ ->
               let kind = (match ni () with 0 -> KScalar | 1 -> KVec3 | 2 -> KUnit3 | 3 -> KQuat | k -> KVecN (nat_of_int (k - 100))) in
               let per = nb () in let period = nf () in let sigma = nf () in let width = nf () in
               let gper = nb () in let expand = nb () in let hlo = nb () in let hup = nb () in
               let lower = nf () in let upper = nf () in let nx = ni () in
               (({ v_kind = kind; v_periodic = per; v_period = period; v_width = width; v_gperiodic = gper;
                   v_expand = expand; v_hard_lo = hlo; v_hard_up = hup }, sigma),
                { b_lower = lower; b_upper = upper; b_nx = z_of_int nx })) in
           let sigmas = List.map (fun ((_, sg), _) -> sg) vg in
           let vg = List.map (fun ((v, _), b) -> (v, b)) vg in
           let ncomp = List.map (fun (v, _) -> match v.v_kind with KScalar -> 1 | KQuat -> 4 | KVecN n -> (let rec cnt = function O -> 0 | S m -> 1 + cnt m in cnt n) | _ -> 3) vg in
           let weight = nf () in let hw = nf () in let freq = ni () in let gfreq = ni () in
           let ug = nb () in let keep = nb () in let wt = nb () in let bt = nf () in let kb = nf () in
           let sz = nb () in let dump = nb () in
           (* ebMeta: flag, ebMetaEquilSteps, number of target values, the values in the order of the grid array *)
           let eb = nb () in let equil = ni () in let nt = ni () in
           let tvals = Array.init nt (fun _ -> nf ()) in
           let nxs = List.map (fun (_, b) -> int_of_z b.b_nx) vg in
           let target (ix : z list) : float =
             let rec addr nx ix = match nx, ix with
               | n :: nr, i :: ir -> (int_of_z i) * (List.fold_left ( * ) 1 nr) + addr nr ir
               | _, _ -> 0 in
             let a = addr nxs ix in
             if a >= 0 && a < nt then tvals.(a) else 1.0 in
           let c = { c_vars = List.map fst vg; c_geom0 = List.map snd vg; c_sigmas = sigmas; c_weight = weight; c_hill_width = hw;
                     c_freq = z_of_int freq; c_gfreq = z_of_int gfreq; c_use_grids = ug; c_keep = keep; c_wt = wt;
                     c_bias_temp = bt; c_kb = kb; c_step_zero = sz; c_eb = eb; c_eb_equil = z_of_int equil;
                     c_eb_target = target } in
           let nev = ni () in
           let c = ref c in
           let st = ref (init_state fops !c) in
           let outs = ref [] in
           (* multiple replicas: one mirror object for the hills received from the other walkers ("F n hill*n" before the
              step at which they are read: update_grid_data projects the mirror, then replica_share adds the hills) *)
           let mirror = ref (init_state fops !c) in
           let pending = ref [] in
           let repl = ref false in
           for _ = 1 to nev do
             match next () with
             | "F" ->
               let k = ni () in
               repl := true;
               pending := !pending @ List.init k (fun _ ->
                   let it = ni () in let w = nf () in
                   let cx = List.map (fun n -> List.init n (fun _ -> nf ())) ncomp in
                   let sg = List.init nd (fun _ -> nf ()) in
                   { h_it = z_of_int it; h_W = w; h_c = cx; h_s = sg })
             | "W" -> st := save_state fops !c !st
             | "P" ->
               (* write_pmf at temperature T: one value per bin, in the order of the array *)
               let temp = nf () in
               let idx = all_indices (List.map (fun bd -> int_of_z bd.b_nx) (!st).st_geom) in
               (* pmf_value c s T ix = pmf_shift c T (grid_max (st_e s) (all_ix sizes)) (st_e s ix) by definition: the maximum
                  is computed once here instead of once per bin *)
               let s0 = !st in
               let mx = grid_max fops s0.st_e (all_ix (List.map (fun bd -> bd.b_nx) s0.st_geom)) in
               outs := ("P " ^ String.concat " " (List.map (fun ix -> hex (pmf_shift fops !c temp mx (s0.st_e (List.map z_of_int ix)))) idx)) :: !outs
             | "R" -> st := restart_state fops !c !st None
             | "L" -> st := reload_state fops !c !st
             | "C" ->
               (* a restart after which the job goes on with other widths, hillWidth, weight, frequency *)
               let sg = List.init nd (fun _ -> nf ()) in
               let hw' = nf () in let w' = nf () in let fr' = ni () in
               let gf' = ni () in let wt' = nb () in let bt' = nf () in let keep' = nb () in
               let e = EReconf { p_sigmas = sg; p_hill_width = hw'; p_weight = w'; p_freq = z_of_int fr';
                                 p_gfreq = z_of_int gf'; p_wt = wt'; p_bias_temp = bt'; p_keep = keep' } in
               st := apply_event fops !c !st e;
               c := next_cfg !c e
             | "B" ->
               let g' = List.init nd (fun _ ->
                   let lower = nf () in let upper = nf () in let nx = ni () in
                   { b_lower = lower; b_upper = upper; b_nx = z_of_int nx }) in
               st := restart_state fops !c !st (Some g')
             | _ ->
               let it = ni () in let rel = ni () in let cont = nb () in
               let x = List.map (fun n -> List.init n (fun _ -> nf ())) ncomp in
               let i = { i_it = z_of_int it; i_rel = z_of_int rel; i_cont = cont; i_x = x } in
               let (s', (e, f)) = step fops !c !st i in
               st := s';
               let (e, f) =
                 if not !repl then (e, f) else begin
                   if ug && (it mod (int_of_z (!c).c_gfreq) = 0) then mirror := mirror_apply fops !c !mirror MProj;
                   List.iter (fun h -> mirror := mirror_apply fops !c !mirror (MAdd h)) !pending;
                   pending := [];
                   (total_energy fops !c s' [!mirror] x,
                    List.mapi (fun k n -> List.init n (fun j -> total_force fops !c s' [!mirror] x (nat_of_int k) (nat_of_int j))) ncomp)
                 end in
               let b = Buffer.create 256 in
               Buffer.add_string b (Printf.sprintf "S %s %s" (hex e) (String.concat " " (List.map hex (List.concat f))));
               Buffer.add_string b (Printf.sprintf " ; H %d %d %s" (List.length s'.st_old) (List.length s'.st_new)
                                      (String.concat " " (List.map hill_str (s'.st_old @ s'.st_new))));
               Buffer.add_string b (Printf.sprintf " ; O %d %s" (List.length s'.st_off_new)
                                      (String.concat " " (List.map hill_str (s'.st_off_old @ s'.st_off_new))));
               Buffer.add_string b (" ; G " ^ String.concat " " (List.map (fun bd ->
                   Printf.sprintf "%d %s %s" (int_of_z bd.b_nx) (hex bd.b_lower) (hex bd.b_upper)) s'.st_geom));
               if dump && ug then begin
                 let idx = all_indices (List.map (fun bd -> int_of_z bd.b_nx) s'.st_geom) in
                 let zidx = List.map (List.map z_of_int) idx in
                 Buffer.add_string b (" ; E " ^ String.concat " " (List.map (fun ix -> hex (grid_energy_at s' ix)) zidx));
                 Buffer.add_string b (" ; D " ^ String.concat " " (List.concat_map (fun ix ->
                     List.init nd (fun k -> hex (grid_gradient_at s' ix (nat_of_int k)))) zidx))
               end;
               outs := Buffer.contents b :: !outs
           done;
           print_string (String.concat " | " (List.rev !outs));
           (* the hills trajectory buffer of the last instance *)
           print_string (" || T " ^ String.concat " " (List.map hill_str (!st).st_traj));
           print_newline ()
         | _ -> Printf.printf "?\n")
      end
    done
  with End_of_file -> ()
