# C05: the metadynamics bias is the sum of the hills deposited on schedule.
# Tie: c05sim (engine simulator + dump of the private state of colvarbias_meta, built from VERIF_REPO)
# against the extracted MetaModel, on generated histories of exact distanceZ variables (with grids) and of
# distanceVec / distanceDir variables (without grids).
# Oracle: independent python re-summation of analytic hills deposited on the documented schedule.
import os, sys, json, math, re
from fractions import Fraction as Fr
import vcommon as V

PROP = "coq/C05/Properties_C05.v"
EXTRACT = "coq/C05/Extract_C05.v"
DRIVER = "props/C05/driver.ml"
PROGS = {"c05sim": ["props/C05/unit.cpp"]}
KB = 0.001987191
NCOMP = {0: 1, 1: 3, 2: 3, 3: 4, 4: 6}      # 4: vector1d, a `cartesian` component of two atoms
NATOMS = {0: 1, 1: 2, 2: 2, 3: 4, 4: 2}
QREF = [(1.0, 0.0, 0.0), (0.0, 1.0, 0.0), (0.0, 0.0, 1.0), (-1.0, -1.0, -1.0)]


def ffloor(q):
    return q.numerator // q.denominator


def close(a, b, tol=1e-9):
    if a == b:
        return True
    if a != a or b != b or abs(a) == float("inf") or abs(b) == float("inf"):
        return False
    return abs(a - b) <= tol * max(1.0, abs(a), abs(b))


def wrap_exact(x, c, P):
    q = Fr(x)
    return float(q - ffloor((q - Fr(c)) / Fr(P) + Fr(1, 2)) * Fr(P))


# ------------------------------------------------------------------------------ generator
EB_FOCUS = {"use_grids": True, "p_expand": 0.0, "p_eb": 1.0, "p_restart": 0.12, "p_reconf": 0.2, "p_it0": 0.6, "equil": [3, 6, 12, 20, 40]}
RECONF_FOCUS = {"p_restart": 0.2, "p_reconf": 0.7, "p_out": 0.35, "p_eb": 0.0}
REBIN_FOCUS = {"use_grids": True, "p_expand": 0.0, "sig_mode": False, "keep": True, "p_eb": 0.0, "periodic": False,
               "p_restart": 0.15, "p_out": 0.4, "big_grids": True}


def gen_scn(r, k, forced=None):
    """forced: overrides; REBIN_FOCUS = large grids, keepHills, rebinning restarts whose new boundaries are larger,
    smaller (cutting through the region where hills sit) or shifted, then excursions beyond the new boundaries"""
    f = dict(forced or {})
    if f.get("big_grids"):
        f.setdefault("nd", r.choice([1, 1, 2]))
        f.setdefault("hw", r.choice([1.0, 1.5, 2.0]))
    nd = f.get("nd", r.choice([1, 1, 1, 2, 2, 3]))
    use_grids = f.get("use_grids", r.random() < 0.8)
    sig_mode = f.get("sig_mode", r.random() < 0.25)       # gaussianSigmas instead of hillWidth
    hw = f.get("hw", r.choice([1.0, 1.0, 1.5, 1.75, 2.0, 2.0, 2.5, 3.0]))
    vars_ = []
    for d in range(nd):
        v = {"kind": 0}
        if not use_grids and r.random() < f.get("p_vector", 0.5):
            v["kind"] = r.choice([1, 2, 3, 4])
        v["w"] = r.choice([1.0, 0.5, 0.25, 2.0])
        v["nx"] = r.randint(3, 6) if nd == 3 else r.randint(4, 12)
        if f.get("big_grids"):
            v["nx"] = r.randint(14, 26) if nd == 1 else r.randint(10, 16)
        v["periodic"] = v["kind"] == 0 and f.get("periodic", r.random() < 0.3)
        v["gper"] = False
        v["expand"] = False
        v["hlo"] = v["hup"] = False
        if v["periodic"]:
            m = r.random()
            if m < 0.5:       # the grid spans the period and is aligned with the wrapping interval
                v["P"] = v["w"] * v["nx"]
                v["c"] = V.dyadic(r, -3, 3, bits=2)
                v["lower"] = v["c"] - v["P"] / 2
                v["gper"] = True
            elif m < 0.75:    # the grid spans the period but starts elsewhere than the wrapping interval
                v["P"] = v["w"] * v["nx"]
                v["c"] = V.dyadic(r, -3, 3, bits=2)
                v["lower"] = v["c"] - v["P"] / 2 + r.randint(-v["nx"], v["nx"]) * v["w"] / 2
                v["gper"] = True
            else:             # the grid covers a part of the period: a non-periodic grid on a periodic variable
                v["P"] = v["w"] * (v["nx"] + 2 * r.randint(3, 8))
                v["c"] = V.dyadic(r, -3, 3, bits=2)
                v["lower"] = v["c"] - v["w"] * v["nx"] / 2
        else:
            v["lower"] = V.dyadic(r, -4, 4, bits=3)
            if use_grids and r.random() < f.get("p_expand", 0.25):
                v["expand"] = True
            m = r.random()
            if m < 0.1:
                v["hlo"] = True
            elif m < 0.2:
                v["hup"] = True
        if v["kind"] != 0:
            v["w"] = r.choice([1.0, 0.5, 2.0])
            v["hlo"] = v["hup"] = False
        v["upper"] = v["lower"] + v["w"] * v["nx"]
        v["sigma"] = v["w"] * r.choice([0.5, 1.0, 1.5]) if sig_mode else v["w"] * hw / 2.0
        vars_.append(v)
    if nd == 3:
        # (cost of the model's grids: at most one expanding variable in three dimensions)
        for v in [v for v in vars_ if v["expand"]][1:]:
            v["expand"] = False
    c = {"id": k, "vars": vars_, "use_grids": use_grids, "sig_mode": sig_mode, "hw": 0.0 if sig_mode else hw,
         "W": r.choice([0.125, 0.5, 1.0]), "freq": f.get("freq", r.choice([1, 1, 2, 2, 3, 4])),
         "keep": f.get("keep", r.random() < 0.5), "wt": f.get("wt", r.random() < 0.4), "bt": r.choice([300.0, 1000.0, 3000.0]),
         "stepzero": r.random() < 0.25}
    c["eb"] = None
    if use_grids and not any(v["expand"] for v in vars_) and r.random() < f.get("p_eb", 0.2):
        nt = 1
        for v in vars_:
            nt *= v["nx"]
        c["eb"] = {"raw": [r.choice([0.0, 0.5, 1.0, 1.0, 2.0, 4.0, 8.0]) for _ in range(nt)], "equil": r.choice(f.get("equil", [0, 0, 3, 6, 20]))}
        if not any(c["eb"]["raw"]):
            c["eb"]["raw"][0] = 1.0
        if r.random() < 0.4:        # targetDistMinVal: a fraction of the maximum, or 0 = the smallest positive value
            c["eb"]["minval"] = r.choice([0.0, 0.25, 0.001, 0.5])
    c["pmf"] = use_grids and r.random() < f.get("p_pmf", 0.2)
    if nd == 3 and any(v["expand"] for v in vars_):
        c["pmf"] = False       # (cost: the free-energy file of a 3-D grid that expands, evaluated bin by bin in the model)
    c["pmf_keep"] = c["pmf"] and r.random() < 0.4
    c["gfreq_explicit"] = use_grids and f.get("gfreq_explicit", r.random() < 0.4)
    c["gfreq"] = f.get("gfreq", r.choice([1, 2, 3, 4, 6])) if c["gfreq_explicit"] else c["freq"]
    c["it0"] = r.randint(0, 9) if r.random() < f.get("p_it0", 0.3) else 0
    c["binary"] = r.random() < 0.35          # format of the state files (formatted text or binary stream)
    c["tsf"] = r.choice([2, 3, 5]) if r.random() < f.get("p_tsf", 0.15) else 1     # timeStepFactor of the bias
    c["medium"] = "mem" if r.random() < 0.4 else "file"    # read back from the file, or from a memory buffer / a string
    if r.random() < f.get("p_bigstep", 0.15):
        # step numbers beyond int and beyond the integers a double holds exactly
        c["it0"] = r.choice([2 ** 31 - 3, 2 ** 32 - 2, 2 ** 53 - 5, 2 ** 62 - 60]) + r.randint(0, 11)
    if r.random() < 0.3:                     # frequencies that are not powers of two
        c["freq"] = f.get("freq", r.choice([3, 3, 5, 6, 7, 12]))
        if c["gfreq_explicit"]:
            c["gfreq"] = f.get("gfreq", r.choice([3, 5, 6, 7, 12]))
        else:
            c["gfreq"] = c["freq"]
    nsteps = r.randint(8, 30)
    p_out = f.get("p_out", r.choice([0.0, 0.1, 0.25]))
    p_save = f.get("p_save", r.choice([0.0, 0.0, 0.08]))
    p_restart = f.get("p_restart", r.choice([0.0, 0.0, 0.06]))
    can_rebin = use_grids and c["keep"] and not any(v["expand"] for v in vars_) and not c["eb"]
    can_rebin_grids = use_grids and not c["keep"] and not c["eb"] and nd < 3     # (84^3 bins dumped at every step otherwise)
    rebin_on = False
    p_reconf = f.get("p_reconf", 0.3)
    keep_now = c["keep"] and use_grids
    events = []
    prev = None
    cur = [dict(lower=v["lower"], upper=v["upper"], nx=v["nx"]) for v in vars_]   # current boundaries of the configuration
    for s in range(nsteps):
        if s > 0 and r.random() < p_restart:
            m = r.random()
            if r.random() < p_reconf:
                # the run that reads the state is configured with other hill parameters than the run that wrote it
                events.append(("reconf", gen_par(r, c, keep_now)))
                rebin_on = False
                if keep_now and not events[-1][1]["keep"]:
                    keep_now = False
                    can_rebin = can_rebin_grids = False     # (rebinning restarts only while the configuration of the first run holds)
            elif m < 0.25 and not rebin_on:
                # (an instance configured with rebinGrids rebins again, onto its configured boundaries, at every state it
                # reads: a reload there is a second rebinning, not modelled)
                # through the module (`load`) or through the bias alone (`cv bias m save` / `cv bias m load`)
                events.append(("reload",) if r.random() < 0.6 else ("breload",))
            elif can_rebin_grids and m < 0.6:
                # rebinning from the grids of the state (no keepHills): the current grids extended by whole bins where
                # expandBoundaries allows (40 bins: beyond any expansion these histories can reach)
                g = []
                for v, b in zip(vars_, cur):
                    lo, up = b["lower"], b["upper"]
                    if v["expand"]:
                        lo, up = v["lower"], v["upper"]
                        if not v["hlo"]:
                            lo -= 40 * v["w"]
                        if not v["hup"]:
                            up += 40 * v["w"]
                    nx = int(round((up - lo) / v["w"]))
                    b.update(lower=lo, upper=up, nx=nx)
                    g.append((nx, lo, up))
                events.append(("rebin", g))
                rebin_on = True
                can_rebin_grids = False      # once: a second extension would have to know the expansions since
            elif can_rebin and r.random() < (0.85 if f.get("big_grids") else 0.5):
                g = []
                for v, b in zip(vars_, cur):
                    lo = b["lower"] + r.randint(-3, 3) * v["w"] / 2
                    nx = b["nx"] if v["gper"] else max(3, b["nx"] + r.randint(-2, 3))
                    if f.get("big_grids") and not v["gper"]:
                        # new boundaries larger, smaller (up to half of the grid cut away on either side) or shifted, by half bins
                        lo = b["lower"] + r.randint(-6, b["nx"]) * v["w"] / 2
                        up = b["upper"] - r.randint(-6, b["nx"]) * v["w"] / 2
                        nx = max(3, int(round((up - lo) / v["w"])))
                    if v["hlo"]:          # a boundary declared hard stays where it is
                        lo = b["lower"]
                    if v["hup"]:
                        lo = b["upper"] - nx * v["w"]
                    b.update(lower=lo, upper=lo + nx * v["w"], nx=nx)
                    g.append((nx, lo, lo + nx * v["w"]))
                events.append(("rebin", g))
                rebin_on = True
            else:
                events.append(("restart",))
                rebin_on = False
        zs = []
        for d, v0 in enumerate(vars_):
            v = dict(v0, **cur[d])
            if v["kind"] == 3:
                # positions of the four atoms of an orientation: the reference, rotated about a random axis by a
                # dyadic-ish rotation, plus noise (the fit returns some unit quaternion)
                if prev is not None and r.random() < 0.6:
                    z = [p + r.randint(-2, 2) / 8.0 for p in prev[d]]
                else:
                    perm = r.choice([(0, 1, 2), (1, 2, 0), (2, 0, 1), (0, 2, 1), (1, 0, 2)])
                    sg = [r.choice([-1.0, 1.0]) for _ in range(3)]
                    z = []
                    for a in QREF:
                        z += [sg[k] * a[perm[k]] + r.randint(-2, 2) / 8.0 for k in range(3)]
                zs.append(z)
                continue
            if v["kind"] == 4:
                # positions of the two atoms: the six entries of the vector
                if prev is not None and r.random() < 0.6:
                    z = [p_ + r.randint(-4, 4) / 8.0 for p_ in prev[d]]
                else:
                    z = [r.randint(-16, 16) / 8.0 for _ in range(6)]
                zs.append(z)
                continue
            if v["kind"] != 0:
                # position of the second atom (the first one sits at the origin)
                if prev is not None and r.random() < 0.6:
                    z = [p + r.randint(-6, 6) / 8.0 for p in prev[d]]
                else:
                    z = [r.randint(-24, 24) / 8.0 for _ in range(3)]
                if all(t == 0.0 for t in z):
                    z[0] = 1.0
                zs.append(z)
                continue
            m = r.random()
            if prev is not None and m < 0.45:        # stay close to the previous value (overlapping hills)
                z = prev[d] + r.randint(-12, 12) * v["w"] / 8
            elif m < 0.6:                            # exactly on a bin edge, boundaries included
                z = v["lower"] + r.randint(-1, v["nx"] + 1) * v["w"]
            elif m < 1.0 - p_out:                    # inside
                z = v["lower"] + r.randint(0, v["nx"] * 8 - 1) * v["w"] / 8 + v["w"] / 16
            else:                                    # outside, mostly close to an edge
                dist = r.randint(1, 24) * v["w"] / 8 if r.random() < 0.7 else r.randint(1, 12) * v["w"]
                z = (v["lower"] - dist) if r.random() < 0.5 else (v["upper"] + dist)
            if v["hlo"]:
                z = max(z, v["lower"] + v["w"] / 16)
            if v["hup"]:
                z = min(z, v["upper"] - v["w"] / 16)
            if v["periodic"] and r.random() < 0.3:
                z += r.randint(-2, 2) * v["P"]
            zs.append(z)
        if events and events[-1][0] in ("restart", "rebin", "reload", "reconf"):
            zs = last_zs         # a resumed run starts from the configuration at which the state was written
        last_zs = zs
        prev = [(wrap_exact(z, v["c"], v["P"]) if v["periodic"] else z) for z, v in zip(zs, vars_)]
        boundary = (s > 0) and r.random() < 0.1
        if s > 0 and use_grids and r.random() < p_save:
            events.append(("save",))
        if s > 0 and c["pmf"] and r.random() < 0.12:
            events.append(("pmf",))
        if events and events[-1][0] in ("restart", "rebin", "reconf"):
            boundary = False
        if events and events[-1][0] == "reload":
            boundary = True          # the step at which the state was written is computed again
        events.append(("step", boundary, zs))
    c["events"] = events
    # things that must not matter to the bias m: a configuration rejected in the middle of the session (a second
    # metadynamics bias with a negative width, a variable with an unknown component), and a second metadynamics bias on the
    # same variables, alive for a few steps and then deleted
    c["noise"] = []
    if r.random() < f.get("p_noise", 0.3):
        for _ in range(r.randint(1, 3)):
            c["noise"].append((r.randint(1, nsteps - 1), r.choice(["badbias", "badcolvar", "second"]), r.randint(1, 4)))
    if r.random() < f.get("p_scale", 0.15) and all(v["kind"] == 0 for v in vars_) and not c["eb"] and not has_restart(c):
        rescale(c, r.choice([-27, -13, 20, 27]))
    return c


def rescale(c, k):
    """the same scenario with every length multiplied by 2^k (exact): boundaries, widths, periods, positions, sigmas"""
    m = 2.0 ** k
    for v in c["vars"]:
        for key in ("w", "lower", "upper", "sigma", "P", "c"):
            if key in v:
                v[key] *= m
    ev = []
    for e in c["events"]:
        if e[0] == "step":
            ev.append(("step", e[1], [z * m for z in e[2]]))
        elif e[0] == "rebin":
            ev.append(("rebin", [(nx, lo * m, up * m) for (nx, lo, up) in e[1]]))
        elif e[0] == "reconf":
            ev.append(("reconf", dict(e[1], sigmas=[t * m for t in e[1]["sigmas"]])))
        else:
            ev.append(e)
    c["events"] = ev
    c["scale"] = k
    # (a state, formatted or binary, holds the grid boundaries as text with 14 significant digits: exact for the dyadic
    # values at unit scale, not for these; a restart then moves the lattice by 1e-14 relative.  That is the state format,
    # C03's subject: only histories without restarts are rescaled)


def gen_par(r, c, keep=False):
    """hill parameters of a later run: hillWidth or gaussianSigmas, hillWeight, newHillFrequency, gridsUpdateFrequency,
    wellTempered on or off, biasTemperature"""
    q = {"W": r.choice([0.125, 0.5, 1.0, 2.0]), "freq": r.choice([1, 1, 2, 3]), "gfreq": r.choice([1, 1, 2, 3, 4]),
         "wt": c["wt"] if r.random() < 0.6 else not c["wt"], "bt": r.choice([300.0, 1000.0, 3000.0]),
         "keep": keep and r.random() < 0.6}        # keepHills stays on, or is switched off (never on: see keep_witness)
    if r.random() < 0.3:
        q.update({"sig_mode": True, "hw": 0.0, "sigmas": [v["w"] * r.choice([0.25, 0.5, 1.0, 1.5, 2.0]) for v in c["vars"]]})
    else:
        hw = r.choice([0.5, 1.0, 1.5, 2.0, 3.0, 4.0])
        q.update({"sig_mode": False, "hw": hw, "sigmas": [v["w"] * hw / 2.0 for v in c["vars"]]})
    return q


def par0(c):
    return {"sig_mode": c["sig_mode"], "hw": c["hw"], "sigmas": [v["sigma"] for v in c["vars"]], "W": c["W"], "freq": c["freq"],
            "gfreq": c["gfreq"], "wt": c["wt"], "bt": c["bt"], "keep": c["keep"]}


def step_events(c):
    return [e for e in c["events"] if e[0] == "step"]


def steps_of(c):
    """(it, rel, cont, imposed positions) per step event, as the engine simulator produces them"""
    out = []
    it = c["it0"]
    run_start = it
    first = True
    for e in c["events"]:
        if e[0] in ("restart", "rebin", "reconf"):
            run_start = it          # the fresh instance resumes at the step of the state
            first = True
            continue
        if e[0] == "reload":
            run_start = it          # the same instance: relative steps restart, the next step is not a first step
            continue
        if e[0] == "breload":       # the bias alone reads its state: the module's step counters are untouched
            continue
        if e[0] != "step":
            continue
        boundary, zs = e[1], e[2]
        if first:
            first = False
        elif not boundary:
            it += 1
        out.append((it, it - run_start, bool(boundary), zs))
    return out


def expected_scalar(v, z):
    return wrap_exact(z, v["c"], v["P"]) if v["periodic"] else z


def atoms_of(c):
    """first atom number of every variable (scalars use one atom, vectors two)"""
    out, a = [], 1
    for v in c["vars"]:
        out.append(a)
        a += NATOMS[v["kind"]]
    return out, a - 1


def config_text(c, geom=None, rebin=False, par=None):
    """the Colvars configuration; geom = [(nx, lower, upper)] replaces the boundaries (restart with rebinGrids); par = the
    hill parameters of a reconfigured run (gridsUpdateFrequency is then written out: its default follows newHillFrequency)"""
    first, natoms = atoms_of(c)
    q = par or par0(c)
    L = ["config EOF"]
    for d, v in enumerate(c["vars"]):
        lower, upper = (v["lower"], v["upper"]) if geom is None else (geom[d][1], geom[d][2])
        L += ["colvar {", "  name v%d" % d, "  width %r" % v["w"]]
        if v["kind"] == 0:
            L += ["  lowerBoundary %r" % lower, "  upperBoundary %r" % upper]
            if v["expand"]:
                L.append("  expandBoundaries on")
            if v["hlo"]:
                L.append("  hardLowerBoundary on")
            if v["hup"]:
                L.append("  hardUpperBoundary on")
            L += ["  distanceZ {", "    main { atomNumbers %d }" % first[d], "    ref { dummyAtom (0,0,0) }", "    axis (0,0,1)"]
            if v["periodic"]:
                L += ["    period %r" % v["P"], "    wrapAround %r" % v["c"]]
            L += ["  }", "}"]
        elif v["kind"] == 4:
            L += ["  cartesian {", "    atoms { atomNumbers %d %d }" % (first[d], first[d] + 1), "  }", "}"]
        elif v["kind"] == 3:
            L += ["  orientation {", "    atoms { atomNumbers %d %d %d %d }" % tuple(first[d] + k for k in range(4)),
                  "    refPositions " + " ".join("(%r, %r, %r)" % a for a in QREF), "  }", "}"]
        else:
            L += ["  %s {" % ("distanceVec" if v["kind"] == 1 else "distanceDir"),
                  "    group1 { atomNumbers %d }" % first[d], "    group2 { atomNumbers %d }" % (first[d] + 1), "  }", "}"]
    L += ["metadynamics {", "  name m", "  colvars " + " ".join("v%d" % d for d in range(len(c["vars"]))),
          "  hillWeight %r" % q["W"], "  newHillFrequency %d" % q["freq"], "  writeHillsTrajectory on"]
    if q["sig_mode"]:
        L.append("  gaussianSigmas " + " ".join("%r" % t for t in q["sigmas"]))
    else:
        L.append("  hillWidth %r" % q["hw"])
    if not c["use_grids"]:
        L.append("  useGrids off")
    else:
        L.append("  writeFreeEnergyFile %s" % ("on" if c.get("pmf") else "off"))
        if c.get("pmf_keep"):
            L.append("  keepFreeEnergyFiles on")
        if c["gfreq_explicit"] or par is not None:
            L.append("  gridsUpdateFrequency %d" % q["gfreq"])
        if q["keep"]:
            L.append("  keepHills on")
        if rebin:
            L.append("  rebinGrids on")
    if q["wt"]:
        L += ["  wellTempered on", "  biasTemperature %r" % q["bt"]]
    if c["stepzero"]:
        L.append("  stepZeroData on")
    if c.get("eb"):
        L += ["  ebMeta on", "  targetDistFile %s" % target_file_name(c), "  ebMetaEquilSteps %d" % c["eb"]["equil"]]
        if c["eb"].get("minval") is not None:
            L.append("  targetDistMinVal %r" % c["eb"]["minval"])
    if c.get("tsf", 1) > 1:
        L.append("  timeStepFactor %d" % c["tsf"])
    L += ["  " + t for t in c.get("meta_extra", [])]
    L += ["}", "EOF", "show atomf 0 energy 0 af 1 bias 1"]
    if c.get("eb"):
        L.append("metatarget m")
    return L


PMF_TEMP = 300.0


def target_file_name(c):
    return "c05_target_%s.dat" % c["id"]


def target_file_text(c):
    """multicolumn grid file of the raw target distribution, on the boundaries of the configuration"""
    vs = c["vars"]
    L = ["# %d" % len(vs)]
    for v in vs:
        L.append("# %r %r %d %d" % (v["lower"], v["w"], v["nx"], 1 if v["gper"] else 0))
    idx = [[]]
    for v in vs:
        idx = [i + [k] for i in idx for k in range(v["nx"])]
    for a, ix in enumerate(idx):
        if ix[-1] == 0:
            L.append("")
        L.append(" " + " ".join("%r" % (v["lower"] + v["w"] * (0.5 + k)) for v, k in zip(vs, ix)) + "  %r" % c["eb"]["raw"][a])
    return "\n".join(L) + "\n"


def target_processed(c):
    """the target distribution as ebMeta uses it: small values raised to 1e-6 of the maximum, normalised to integral
    1, multiplied by the effective volume exp(entropy) (init_ebmeta_params)"""
    d = list(c["eb"]["raw"])
    mv = c["eb"].get("minval")
    if mv == 0.0:
        # targetDistMinVal 0: zeros are raised to the smallest positive value
        thr = min(t for t in d if t > 0.0)
        d = [max(t, thr) for t in d] if min(d) == 0.0 else d
    else:
        thr = max(d) * (1 / 1000000.0 if mv is None else mv)
        d = [max(t, thr) for t in d]
    vol = 1.0
    for v in c["vars"]:
        vol *= v["w"]
    I = vol * sum(d)
    d = [t * (1.0 / I) for t in d]
    S = vol * sum(-1.0 * t * math.log(t) for t in d if t > 0)
    e = math.exp(S)
    return [t * e for t in d]


def scenario_files(c):
    return {target_file_name(c): target_file_text(c)} if c.get("eb") else {}


def scenario_text(c, dump=True):
    first, natoms = atoms_of(c)
    L = ["natoms %d" % natoms, "nocell"]
    if c.get("pmf"):
        L += ["prefix c05p_%s" % c["id"], "temperature %r" % PMF_TEMP]
    L.append("new")
    if c["it0"]:
        L.append("setstep %d" % c["it0"])
    L += config_text(c)
    if c.get("outprefix"):
        L.append("outprefix %s" % c["outprefix"])
    for d, v in enumerate(c["vars"]):
        if v["kind"] in (1, 2):
            L.append("pos %d 0 0 0" % first[d])
    nstate = 0
    nstep = 0
    par = None
    fmt = "binary" if c.get("binary") else "text"
    load = "load" if c.get("medium", "file") == "file" else ("loadbuf" if c.get("binary") else "loadstr")
    for e in c["events"]:
        if e[0] == "save":
            L.append("save %s c05.state" % fmt)
            continue
        if e[0] == "pmf":
            L.append("metapmf m")
            continue
        if e[0] == "reload":
            nstate += 1
            L += ["save %s c05l%d.state" % (fmt, nstate), "%s c05l%d.state" % (load, nstate)]
            continue
        if e[0] == "breload":
            nstate += 1
            L += ["script cv bias m save c05b%d" % nstate, "script cv bias m load c05b%d" % nstate]
            continue
        if e[0] in ("restart", "rebin", "reconf"):
            # the state is written, a fresh instance reads it (for "rebin": with new boundaries and rebinGrids on; for
            # "reconf": with other hill parameters, which stay for the later runs)
            nstate += 1
            L += ["metatraj m", "save %s c05r%d.state" % (fmt, nstate), "new"]
            if e[0] == "reconf":
                par = e[1]
            L += config_text(c, e[1], True, par) if e[0] == "rebin" else config_text(c, None, False, par)
            L.append("%s c05r%d.state" % (load, nstate))
            continue
        boundary, zs = e[1], e[2]
        L += noise_text(c, nstep)
        nstep += 1
        for d, z in enumerate(zs):
            if c["vars"][d]["kind"] == 0:
                L.append("pos %d 0 0 %s" % (first[d], V.hexf(z)))
            elif c["vars"][d]["kind"] == 4:
                for k in range(2):
                    L.append("pos %d %s %s %s" % (first[d] + k, V.hexf(z[3 * k]), V.hexf(z[3 * k + 1]), V.hexf(z[3 * k + 2])))
            elif c["vars"][d]["kind"] == 3:
                for k in range(4):
                    L.append("pos %d %s %s %s" % (first[d] + k, V.hexf(z[3 * k]), V.hexf(z[3 * k + 1]), V.hexf(z[3 * k + 2])))
            else:
                L.append("pos %d %s %s %s" % (first[d] + 1, V.hexf(z[0]), V.hexf(z[1]), V.hexf(z[2])))
        if boundary:
            L.append("runboundary")
        L.append("step")
        L.append("metadump m %d" % (1 if dump else 0))
    L.append("metatraj m")
    return "\n".join(L) + "\n"


def second_alive(c):
    """indices of the step events during which the second bias m2 exists"""
    out = set()
    nst = len(step_events(c))
    for (k, kind, dur) in c.get("noise", []):
        if kind == "second":
            out |= set(range(k, min(nst, k + dur)))
    return out


def noise_text(c, n):
    """commands issued before step event n that must leave the bias m as it is"""
    L = []
    names = " ".join("v%d" % d for d in range(len(c["vars"])))
    alive = second_alive(c)
    if n > 0 and n in alive and (n - 1) not in alive or (n == 0 and 0 in alive):
        L += ["config EOF", "metadynamics {", "  name m2", "  colvars " + names, "  hillWeight 0.25", "  newHillFrequency 1",
              "  hillWidth 1.5"] + ([] if c["use_grids"] else ["  useGrids off"]) + ["}", "EOF"]
    if n > 0 and (n - 1) in alive and n not in alive:
        L.append("script cv bias m2 delete")
    for (k, kind, dur) in c.get("noise", []):
        if k != n:
            continue
        if kind == "badbias":
            L += ["config EOF", "metadynamics {", "  name mbad", "  colvars " + names, "  hillWeight 1.0", "  hillWidth -1.0", "}", "EOF"]
        elif kind == "badcolvar":
            L += ["config EOF", "colvar {", "  name vbad", "  nosuchcomponent {", "    group1 { atomNumbers 1 }", "  }", "}", "EOF"]
    return L


def model_case(c, xs, dump=True, foreign=None):
    """xs: the values of the variables at every step (list of lists of component lists)"""
    p = ["META", str(len(c["vars"]))]
    for v in c["vars"]:
        p += [str(v["kind"] if v["kind"] < 4 else 100 + NCOMP[v["kind"]]), "1" if v["periodic"] else "0", V.hexf(v.get("P", 1.0)), V.hexf(v["sigma"]), V.hexf(v["w"]),
              "1" if v["gper"] else "0", "1" if v["expand"] else "0", "1" if v["hlo"] else "0", "1" if v["hup"] else "0",
              V.hexf(v["lower"]), V.hexf(v["upper"]), str(v["nx"])]
    p += [V.hexf(c["W"]), V.hexf(c["hw"]), str(c["freq"]), str(c["gfreq"]), "1" if c["use_grids"] else "0",
          "1" if (c["keep"] and c["use_grids"]) else "0", "1" if c["wt"] else "0", V.hexf(c["bt"]), V.hexf(KB),
          "1" if c["stepzero"] else "0", "1" if dump else "0"]
    if c.get("eb"):
        tp = target_processed(c)
        p += ["1", str(c["eb"]["equil"]), str(len(tp))] + [V.hexf(t) for t in tp]
    else:
        p += ["0", "0", "0"]
    st = steps_of(c)
    tsf = c.get("tsf", 1)
    asleep = sum(1 for t in st if t[0] % tsf != 0)
    skip_pmf = bool(c.get("eb"))       # the ebMeta correction of the free-energy file is the oracle's, not the model's
    p.append(str(len(c["events"]) - asleep + (1 if foreign else 0) - (sum(1 for e in c["events"] if e[0] == "pmf") if skip_pmf else 0)))
    n = 0
    for e in c["events"]:
        if foreign and e[0] == "step" and n == foreign[0]:
            # hills received from the other walkers at this step: it, weight, centres, widths
            p += ["F", str(len(foreign[1]))]
            for h in foreign[1]:
                p += [str(h[0]), V.hexf(h[1])] + [V.hexf(t) for cv in h[2] for t in cv] + [V.hexf(t) for t in h[3]]
        if e[0] == "save":
            p.append("W")
            continue
        if e[0] == "restart":
            p.append("R")
            continue
        if e[0] in ("reload", "breload"):
            p.append("L")
            continue
        if e[0] == "reconf":
            p += ["C"] + [V.hexf(t) for t in e[1]["sigmas"]] + [V.hexf(e[1]["hw"]), V.hexf(e[1]["W"]), str(e[1]["freq"]),
                                                                str(e[1]["gfreq"]), "1" if e[1]["wt"] else "0", V.hexf(e[1]["bt"]),
                                                                "1" if e[1].get("keep", c["keep"]) else "0"]
            continue
        if e[0] == "pmf":
            if not skip_pmf:
                p += ["P", V.hexf(PMF_TEMP)]
            continue
        if e[0] == "rebin":
            p.append("B")
            for (nx, lo, up) in e[1]:
                p += [V.hexf(lo), V.hexf(up), str(nx)]
            continue
        it, rel, cont, _ = st[n]
        if it % tsf == 0:       # the bias sleeps at the other steps: they are not events of its history
            p += ["S", str(it), str(rel), "1" if cont else "0"] + [V.hexf(t) for xv in xs[n] for t in xv]
        n += 1
    return " ".join(p)


# ------------------------------------------------------------------------------ parsing
def fh(t):
    try:
        return float.fromhex(t)
    except ValueError:      # output cut short by a crash of the implementation
        return float("nan")


def split_comps(c, flat):
    out, a = [], 0
    for v in c["vars"]:
        n = NCOMP[v["kind"]]
        out.append(flat[a:a + n])
        a += n
    return out


def parse_hills(c, tokens):
    """hills as (step, weight, centres, widths)"""
    ncomp = sum(NCOMP[v["kind"]] for v in c["vars"])
    nd = len(c["vars"])
    hs = []
    for a in range(0, len(tokens), ncomp + nd + 2):
        hs.append((int(tokens[a]), fh(tokens[a + 1]), split_comps(c, [fh(t) for t in tokens[a + 2:a + 2 + ncomp]]),
                   [fh(t) for t in tokens[a + 2 + ncomp:a + 2 + ncomp + nd]]))
    return hs


def parse_traj(c, text):
    """lines of the buffered hills trajectory: step, centres, sigmas, weight (one per add_hill, in order)"""
    ncomp = sum(NCOMP[v["kind"]] for v in c["vars"])
    nd = len(c["vars"])
    out = []
    for line in text.split("\n"):
        w = line.replace("(", " ").replace(")", " ").replace(",", " ").split()
        if len(w) == 3 + ncomp + nd and w[0] == "TRAJ":
            out.append((int(w[1]), float(w[-1]), split_comps(c, [float(t) for t in w[2:2 + ncomp]]),
                        [float(t) for t in w[2 + ncomp:2 + ncomp + nd]]))
    return out if "TRAJEND" in text else None


def last_traj_segment(c, text):
    """the records of the last `metatraj` dump (the instance alive at the end)"""
    segs = text.split("TRAJEND")
    if len(segs) < 2:
        return None
    seg = segs[-2]
    if "TRAJEND" in seg:
        seg = seg[seg.rindex("TRAJEND"):]
    r = parse_traj(c, seg + "TRAJEND")
    # a dump begins after the previous TRAJEND: keep only the TRAJ lines that follow the last non-TRAJ output
    lines = seg.split("\n")
    k = len(lines)
    while k > 0 and (lines[k - 1].startswith("TRAJ") or not lines[k - 1].strip()):
        k -= 1
    return parse_traj(c, "\n".join(lines[k:]) + "\nTRAJEND")


def parse_impl(c, text):
    nd = len(c["vars"])
    steps = []
    cur = None
    target = []
    c["_target_dump"] = target
    pmfs = []
    c["_pmf_dump"] = pmfs
    for line in text.split("\n"):
        w = line.split()
        if not w or w[0] in ("TRAJ", "TRAJEND"):
            continue
        if w[0] == "TARGET":
            target.append([fh(t) for t in w[1:]])
            continue
        if w[0] == "PMFFILE":
            pmfs.append([w[1] if len(w) > 1 else "", None])
            continue
        if w[0] == "PMF":
            if pmfs:
                pmfs[-1][1] = [fh(t) for t in w[1:]]
            continue
        if w[0] == "STEP":
            cur = {"it": int(w[1]), "err": w[2] if len(w) > 2 else "", "cv": [], "af": [], "hills": [], "off": [],
                   "geom": None, "egrid": None, "ggrid": None}
            steps.append(cur)
        elif cur is None:
            continue
        elif w[0] == "CV":
            cur["cv"].append([fh(t) for t in w[2:]])
        elif w[0] == "AF":
            cur["af"].append([fh(t) for t in w[2:]])
        elif w[0] == "BIAS":
            if w[1] == "m":
                cur["bias"] = fh(w[2])
        elif w[0] == "META":
            if w[1] == "none":
                cur["nometa"] = True
            else:
                kv = dict(t.split("=") for t in w[1:])
                cur["nhills"], cur["nnew"], cur["noff"] = int(kv["nhills"]), int(kv["nnew"]), int(kv["noff"])
                cur["noffnew"] = int(kv.get("noffnew", 0))
        elif w[0] == "MENERGY":
            cur["E"] = fh(w[1])
        elif w[0] == "MFORCE":
            cur["F"] = split_comps(c, [fh(t) for t in w[1:]])
        elif w[0] == "HILL":
            cur["hills"] += parse_hills(c, w[1:])
        elif w[0] == "OFF":
            cur["off"] += parse_hills(c, w[1:])
        elif w[0] == "GEOM":
            cur["geom"] = [(int(w[1 + 5 * d]), fh(w[2 + 5 * d]), fh(w[3 + 5 * d])) for d in range(nd)]
            cur["gw"] = [fh(w[4 + 5 * d]) for d in range(nd)]
            cur["gper"] = [int(w[5 + 5 * d]) for d in range(nd)]
        elif w[0] == "EGRID":
            cur["egrid"] = [fh(t) for t in w[1:]]
        elif w[0] == "GGRID":
            cur["ggrid"] = [fh(t) for t in w[1:]]
    return steps


def parse_model(c, line):
    nd = len(c["vars"])
    steps = []
    if " || T" in line:
        line, tr = line.split(" || T", 1)
        c["_model_traj"] = parse_hills(c, tr.split())
    else:
        c["_model_traj"] = None
    c["_model_pmf"] = []
    for rec in line.split(" | "):
        fs = [f.split() for f in rec.split(" ; ")]
        if fs and fs[0] and fs[0][0] == "P":
            c["_model_pmf"].append([fh(t) for t in fs[0][1:]])
            continue
        if not fs or not fs[0] or fs[0][0] != "S":
            return None
        s = {"E": fh(fs[0][1]), "F": split_comps(c, [fh(t) for t in fs[0][2:]]), "geom": None, "egrid": None, "ggrid": None}
        for f in fs[1:]:
            if f[0] == "H":
                nold, nnew = int(f[1]), int(f[2])
                s["nhills"], s["nnew"] = nold + nnew, nnew
                s["hills"] = parse_hills(c, f[3:])
            elif f[0] == "O":
                s["noffnew"] = int(f[1])
                s["off"] = parse_hills(c, f[2:])
                s["noff"] = len(s["off"])
            elif f[0] == "G":
                s["geom"] = [(int(f[1 + 3 * d]), fh(f[2 + 3 * d]), fh(f[3 + 3 * d])) for d in range(nd)]
            elif f[0] == "E":
                s["egrid"] = [fh(t) for t in f[1:]]
            elif f[0] == "D":
                s["ggrid"] = [fh(t) for t in f[1:]]
        steps.append(s)
    return steps


def centres_same(c1, c2, exact):
    if exact:
        return c1 == c2
    # hills read back from a text state file: centres are printed with 14 significant digits
    return len(c1) == len(c2) and all(len(p) == len(q) and all(close(t, u, 1e-12) for t, u in zip(p, q)) for p, q in zip(c1, c2))


def hills_close(a, b, exact=True):
    if len(a) != len(b):
        return False
    for (i1, w1, c1, s1), (i2, w2, c2, s2) in zip(a, b):
        if i1 != i2 or not centres_same(c1, c2, exact) or not close(w1, w2):
            return False
        if len(s1) != len(s2) or any(not close(p, q, 1e-12) for p, q in zip(s1, s2)):
            return False
    return True


def has_restart(c):
    return any(e[0] in ("restart", "rebin", "reload", "reconf", "breload") for e in c["events"])


def vec_close(a, b):
    return a is not None and b is not None and len(a) == len(b) and all(close(p, q) for p, q in zip(a, b))


def force_close(a, b):
    return a is not None and b is not None and len(a) == len(b) and all(vec_close(p, q) for p, q in zip(a, b))


def force_same(a, b):
    """equal forces for the tie: components close, or not-a-number on both sides (a unit vector exactly opposite to a hill
    centre in range gives inf - inf in the implementation and in the model alike)"""
    return a is not None and b is not None and len(a) == len(b) and all(
        len(p) == len(q) and all((t != t and u != u) or close(t, u) for t, u in zip(p, q)) for p, q in zip(a, b))


def tangential(c, F, x):
    """forces with the radial component removed for unit-vector variables: between (nearly) coincident unit vectors the
    implemented gradient -2 theta/sin(theta) c is ill-conditioned along the vector itself (0/0 at theta = 0, where the
    code returns 0), and that component does not act on a unit vector"""
    out = []
    for v, f, xv in zip(c["vars"], F, x):
        if v["kind"] == 2 and len(f) == 3 and len(xv) == 3:
            d = sum(a * b for a, b in zip(f, xv))
            out.append([a - d * b for a, b in zip(f, xv)])
        else:
            out.append(list(f))
    return out


def compare_step(c, im, mo):
    """first differing component between implementation and model at one step, or None"""
    if not close(im["E"], mo["E"]):
        return "energy"
    if has_restart(c) and all(t == t and abs(t) != float("inf") for F in (im["F"], mo["F"]) for f in F for t in f):
        # hill centres read back from a text state differ in the last digits: compare what acts on a unit vector
        # (a unit vector exactly opposite to a hill centre gives +-inf components on both sides: compared as they are)
        if not force_close(tangential(c, im["F"], im["cv"]), tangential(c, mo["F"], im["cv"])):
            return "force"
    elif not force_same(im["F"], mo["F"]):
        return "force"
    ex = not has_restart(c)
    if (im["nhills"], im["nnew"]) != (mo["nhills"], mo["nnew"]) or not hills_close(im["hills"], mo["hills"], ex):
        return "hills"
    if im["noff"] != mo["noff"] or not hills_close(im["off"], mo["off"], ex) or im["noffnew"] != mo["noffnew"]:
        return "off_grid_list"
    if c["use_grids"]:
        if im["geom"] != mo["geom"]:
            return "geometry"
        if mo["egrid"] is not None:
            if not vec_close(im["egrid"], mo["egrid"]):
                return "energy_grid"
            if not vec_close(im["ggrid"], mo["ggrid"]):
                return "gradient_grid"
    return None


# ------------------------------------------------------------------------------ oracle (implementation alone)
def pdiff(v, x, ctr):
    d = x - ctr
    if v["periodic"]:
        d = float(Fr(d) - ffloor(Fr(d) / Fr(v["P"]) + Fr(1, 2)) * Fr(v["P"]))
    return d


def clampdot(a, b):
    co = a[0] * b[0] + a[1] * b[1] + a[2] * b[2]
    return co, max(-1.0, min(1.0, co))


def dist2(v, x, ctr):
    if v["kind"] == 0:
        return pdiff(v, x[0], ctr[0]) ** 2
    if v["kind"] in (1, 4):
        return sum((a - b) ** 2 for a, b in zip(x, ctr))
    if v["kind"] == 3:
        co = sum(a * b for a, b in zip(x, ctr))
        om = math.acos(max(-1.0, min(1.0, co)))
        return om * om if co > 0.0 else (math.pi - om) ** 2
    th = math.acos(clampdot(x, ctr)[1])
    return th * th


def dgrad(v, x, ctr):
    """derivative of dist2 with respect to x (for a unit vector: the implemented tangential form, along the centre)"""
    if v["kind"] == 0:
        return [2 * pdiff(v, x[0], ctr[0])]
    if v["kind"] in (1, 4):
        return [2 * (a - b) for a, b in zip(x, ctr)]
    if v["kind"] == 3:
        co = sum(a * b for a, b in zip(x, ctr))
        om = math.acos(max(-1.0, min(1.0, co)))
        so = math.sin(om)
        if abs(so) < 1e-14:
            return [0.0] * 4
        g = [-so * b + co * (a - co * b) / so for a, b in zip(x, ctr)]
        f = 2.0 * om if co > 0.0 else -2.0 * (math.pi - om)
        return [f * t for t in g]
    co, cc = clampdot(x, ctr)
    s2 = 1.0 - co * co
    if s2 < 1e-28:          # coincident or exactly opposite: the null vector (colvarvalue::dist2_grad)
        return [0.0, 0.0, 0.0]
    k = 2.0 * math.acos(cc) * -1.0 / math.sqrt(s2)
    return [k * t for t in ctr]


def kern(c, x, h):
    q = 0.0
    for v, xi, ci, si in zip(c["vars"], x, h[2], h[3]):     # every hill has its own widths
        q += dist2(v, xi, ci) / (si * si)
    return 0.0 if q > 23.0 else math.exp(-0.5 * q)


def esum(c, x, hs):
    return sum(h[1] * kern(c, x, h) for h in hs)


def fsum(c, x, hs, i):
    v = c["vars"][i]
    out = [0.0] * NCOMP[v["kind"]]
    for h in hs:
        k = h[1] * kern(c, x, h)
        if k == 0.0:
            continue
        g = dgrad(v, x[i], h[2][i])
        for j in range(len(out)):
            out[j] += k * g[j] / (2 * h[3][i] * h[3][i])
    return out


def bins_exact(c, geom, x):
    out = []
    for v, g, xi in zip(c["vars"], geom, x):
        b = ffloor((Fr(xi[0]) - Fr(g[1])) / Fr(v["w"]))
        if v["gper"]:
            b %= g[0]
        out.append(b)
    return out


def vadd(a, b):
    return [p + q for p, q in zip(a, b)]


def spec_bias(c, geom, x, tab, pend):
    """the bias the property prescribes at x: (energy, forces, inside?)"""
    nd = len(c["vars"])
    if c["use_grids"]:
        b = bins_exact(c, geom, x)
        if all(0 <= bi < g[0] for bi, g in zip(b, geom)):
            ctr = [[g[1] + v["w"] * (0.5 + bi)] for v, g, bi in zip(c["vars"], geom, b)]
            return (esum(c, ctr, tab) + esum(c, x, pend),
                    [vadd(fsum(c, ctr, tab, i), fsum(c, x, pend, i)) for i in range(nd)], True)
    allh = tab + pend
    return esum(c, x, allh), [fsum(c, x, allh, i) for i in range(nd)], False


def oracle(c, impl, traj):
    """walk the history; return (signature, text, step index) of the first departure of the implementation
    from the property, or None.  Also returns facts about the scenario for the evidence."""
    st = steps_of(c)
    tab, pend = [], []
    facts = {"deposits": 0, "projections": 0, "outside_steps": 0, "expansions": 0, "saves": 0, "wt_outside": 0,
             "wrapped_steps": 0, "restarts": 0, "rebins": 0, "antipodal_steps": 0, "ebmeta_deposits": 0, "reloads": 0, "rebins_from_grids": 0, "bound_checks": 0, "bound_max_ratio": 0.0, "pmf_files": 0, "reconfs": 0, "hetero_steps": 0, "asleep_steps": 0}
    cur = par0(c)          # the hill parameters of the current run
    tsf = c.get("tsf", 1)
    last_awake = None
    alive2 = second_alive(c)     # while a second bias acts on the same variables the applied force is the sum of both
    restarted = False
    off_at_restart = []
    lingering = False      # after a restart without keepHills the hills near the edges stay listed until the next projection
    nd = len(c["vars"])
    geom0 = [(v["nx"], v["lower"], v["upper"]) for v in c["vars"]]
    prev_geom = geom0
    traj = list(traj)
    n = -1
    for e in c["events"]:
        if e[0] == "save":
            facts["saves"] += 1
            if c["use_grids"]:
                if pend:
                    facts["projections"] += 1
                tab += pend
                pend = []
            continue
        if e[0] == "pmf":
            # the free-energy file: (max E - E) over the bins, E the sum of the tabulated hills at the bin centre, times
            # (biasTemperature + T)/biasTemperature when well-tempered; named <prefix>[.<step>].pmf
            k = facts["pmf_files"]
            facts["pmf_files"] += 1
            dumps = c.get("_pmf_dump") or []
            geomp = prev_geom
            idx = [[]]
            for g in geomp:
                idx = [i + [b] for i in idx for b in range(g[0])]
            Eb = [esum(c, [[g[1] + v["w"] * (0.5 + b)] for v, g, b in zip(c["vars"], geomp, ix)], tab) for ix in idx]
            if c.get("eb"):
                # ebMeta: the free energy is corrected by kT ln(target distribution) before the maximum is taken
                Eb = [t + PMF_TEMP * KB * math.log(q) for t, q in zip(Eb, target_processed(c))]
            scale = (cur["bt"] + PMF_TEMP) / cur["bt"] if cur["wt"] else 1.0
            exp_ = [(max(Eb) - t) * scale for t in Eb]
            name = "c05p_%s%s.pmf" % (c["id"], (".%d" % st[n][0]) if c.get("pmf_keep") and n >= 0 else (".%d" % c["it0"] if c.get("pmf_keep") else ""))
            if k >= len(dumps) or dumps[k][1] is None or not vec_close(dumps[k][1], exp_) :
                return ("pmf:values", "free-energy file %d: %s, expected (max E - E)*%r over the tabulated hills: %s" % (
                    k, dumps[k] if k < len(dumps) else None, scale, exp_), max(n, 0)), facts
            if dumps[k][0] != name:
                return ("pmf:file-name", "free-energy file %d is named %r, expected %r" % (k, dumps[k][0], name), max(n, 0)), facts
            continue
        if e[0] in ("restart", "rebin", "reload", "reconf", "breload"):
            last_awake = None
            facts["restarts"] += 1
            if e[0] in ("reload", "breload"):
                facts["reloads"] += 1
            if e[0] == "reconf":
                facts["reconfs"] += 1
                cur = e[1]
            restarted = True
            off_at_restart = list(impl[n]["off"]) if n >= 0 else []
            if c["use_grids"]:
                if pend:
                    facts["projections"] += 1
                tab += pend
                pend = []
                lingering = not cur["keep"]
                if e[0] == "rebin":
                    facts["rebins"] += 1
                    if not cur["keep"]:
                        facts["rebins_from_grids"] += 1
                    prev_geom = [tuple(g) for g in e[1]]
            continue
        n += 1
        it, rel, cont, zs = st[n]
        im = impl[n]
        if it % tsf != 0:
            # the bias sleeps: no hill, energy and forces are those of its last update (if this instance had one)
            facts["asleep_steps"] += 1
            if traj and traj[0][0] == it and (n + 1 == len(st) or st[n + 1][0] != it) and (n == 0 or st[n - 1][0] != it):
                return ("schedule:hill-while-asleep", "step %d (it=%d): a hill was added at a step that is not a multiple of "
                        "timeStepFactor %d" % (n, it, tsf), n), facts
            if last_awake is not None and (im["E"] != last_awake["E"] or im["F"] != last_awake["F"]):
                return ("asleep:bias-changed", "step %d (it=%d): the bias sleeps (timeStepFactor %d) but its energy/forces "
                        "changed: %r %s -> %r %s" % (n, it, tsf, last_awake["E"], last_awake["F"], im["E"], im["F"]), n), facts
            continue
        last_awake = im
        x = im["cv"]
        # the history imposed on the module: exact for the scalar variables
        bad_hist = im["it"] != it or len(x) != nd
        for v, z, xv in zip(c["vars"], zs, x):
            if v["kind"] == 0 and xv != [expected_scalar(v, z)]:
                bad_hist = True
            if v["kind"] in (1, 4) and xv != z:
                bad_hist = True
        if bad_hist:
            return ("harness:history", "step %d: imposed (it=%d, z=%s) but the module saw (it=%d, x=%s)" % (n, it, zs, im["it"], x), n), facts
        geom = im["geom"] if c["use_grids"] else geom0
        if c["use_grids"]:
            # the grid may only grow, by whole bins, on the same lattice
            for v, g, pg in zip(c["vars"], geom, prev_geom):
                if g != pg:
                    facts["expansions"] += 1
                    kl = (Fr(pg[1]) - Fr(g[1])) / Fr(v["w"])
                    ku = (Fr(g[2]) - Fr(pg[2])) / Fr(v["w"])
                    if kl.denominator != 1 or ku.denominator != 1 or kl < 0 or ku < 0 or g[0] != pg[0] + kl + ku or not v["expand"]:
                        return ("expand:lattice", "step %d: grid of variable changed from %s to %s: not an expansion by whole bins" % (n, pg, g), n), facts
            prev_geom = geom
            for v, g, xv in zip(c["vars"], geom, x):
                if v["gper"] and not (g[1] <= xv[0] < g[2]):
                    facts["wrapped_steps"] += 1
        hetero = any(h[3] != cur["sigmas"] for h in tab + pend)     # hills of an earlier run with other widths are in play
        if hetero:
            facts["hetero_steps"] += 1
        asconf = [[(h[0], h[1], h[2], list(cur["sigmas"])) for h in l] for l in (tab, pend)]
        deposit = (it % cur["freq"] == 0) and ((rel > 0 and not cont) or c["stepzero"])
        if deposit:
            facts["deposits"] += 1
            wgt = cur["W"]
            pend_before = list(pend)
            ins = True
            ebf = 1.0
            if c.get("eb"):
                tb = []
                for v, xv in zip(c["vars"], x):
                    b = ffloor((Fr(xv[0]) - Fr(v["lower"])) / Fr(v["w"]))
                    b = b % v["nx"] if v["gper"] else min(max(b, 0), v["nx"] - 1)
                    tb.append(b)
                a = 0
                for v, b in zip(c["vars"], tb):
                    a = a * v["nx"] + b
                ebf = ebf1 = 1.0 / target_processed(c)[a]
                if it < c["eb"]["equil"]:
                    lam = (c["eb"]["equil"] - it) / float(c["eb"]["equil"])
                    ebf = lam + (1 - lam) * ebf
                facts["ebmeta_deposits"] += 1
                wgt = cur["W"] * ebf
            if cur["wt"]:
                vhere, _, ins = spec_bias(c, geom, x, tab, pend)
                wgt = cur["W"] * (ebf * math.exp(-vhere / (cur["bt"] * KB)))
                if c["use_grids"] and not ins:
                    facts["wt_outside"] += 1
            h = (it, wgt, [list(t) for t in x], list(cur["sigmas"]))
            # the hill actually added at this step (hills trajectory buffer, 14 significant digits)
            if not traj or traj[0][0] != it or not all(close(a, b, 1e-12) for ta, tb in zip(traj[0][2], x) for a, b in zip(ta, tb)):
                return ("schedule:missing-hill", "step %d (it=%d, relative %d%s): the schedule prescribes a hill at %s; the next hill "
                        "added by the module is %s" % (n, it, rel, ", repeated step" if cont else "", x, traj[0] if traj else None), n), facts
            seen = [traj.pop(0)]
            if len(seen[-1][3]) != nd or any(not close(a, b, 1e-12) for a, b in zip(seen[-1][3], cur["sigmas"])):
                return ("schedule:hill-width", "step %d (it=%d): hill deposited at %s has widths %s, the run is configured with %s" % (
                    n, it, x, seen[-1][3], cur["sigmas"]), n), facts
            if not close(seen[-1][1], wgt):
                misaligned = any(v["gper"] and not (g[1] <= xv[0] < g[2]) for v, g, xv in zip(c["vars"], geom, x))
                eb_outside = bool(c.get("eb")) and any(not (0 <= ffloor((Fr(xv[0]) - Fr(v["lower"])) / Fr(v["w"])) < v["nx"])
                                                        for v, xv in zip(c["vars"], x))
                if cur["wt"] and hetero and close(seen[-1][1], cur["W"] * (ebf * math.exp(-spec_bias(c, geom, x, asconf[0], asconf[1])[0] / (cur["bt"] * KB)))):
                    sig = "widths:hills-evaluated-with-the-configured-width-not-their-own"
                elif c.get("eb") and c["eb"]["equil"] > 0 and (c["it0"] > 0 or restarted) and not cur["wt"] and \
                        any(close(seen[-1][1], cur["W"] * (lam_ + (1 - lam_) * ebf1))
                            for lam_ in [max(0.0, (c["eb"]["equil"] - k_) / float(c["eb"]["equil"])) for k_ in range(0, it + 1)]):
                    # the weight is the one of the ramp at another step than the absolute one
                    sig = "ebmeta:ramp-not-on-the-absolute-step"
                elif c.get("eb") and eb_outside:
                    sig = "ebmeta:target-read-out-of-range"
                elif c.get("eb") and seen[-1][1] != seen[-1][1]:
                    sig = "ebmeta:nan-weight-in-ramp"
                elif c.get("eb") and not cur["wt"]:
                    sig = "ebmeta:hill-weight"
                elif cur["wt"] and c["use_grids"] and misaligned:
                    sig = "periodic:grid-not-aligned-with-wrapping-interval"
                elif cur["wt"] and c["use_grids"] and not ins:
                    sig = "wt:deposit-outside-grid-reads-out-of-range"
                elif cur["wt"] and c["use_grids"] and pend_before and esum(c, x, pend_before) != 0.0:
                    sig = "wt:ignores-unprojected-hills"
                elif cur["wt"] and c["use_grids"] and any(v["expand"] for v in c["vars"]) and geom != geom0:
                    sig = "expand:bins-added-by-expansion-miss-earlier-hills"
                else:
                    sig = "schedule:hill-weight"
                return (sig, "step %d (it=%d): hill deposited at %s has weight %r, the property prescribes %r "
                        "(hillWeight %r%s)" % (n, it, x, seen[-1][1], wgt, cur["W"],
                                               ", times exp(-V/kT) with V the bias at that point" if cur["wt"] else ""), n), facts
            pend.append(h)
        elif traj and traj[0][0] == it and (n + 1 == len(st) or st[n + 1][0] != it):
            return ("schedule:extra-hill", "step %d (it=%d, relative %d%s): the module added the hill %s at a step that is not "
                    "eligible (newHillFrequency %d)" % (n, it, rel, ", repeated step" if cont else "", traj[0], cur["freq"]), n), facts
        if c["use_grids"] and it % cur["gfreq"] == 0:
            if pend:
                facts["projections"] += 1
            tab += pend
            pend = []
            lingering = False
        # which hills must still be listed explicitly
        if c["use_grids"]:
            explicit = (tab + pend) if cur["keep"] else pend
        else:
            explicit = tab + pend
        listed = im["hills"]
        if lingering and len(listed) >= len(explicit):
            # tabulated hills read back from the state (those near the edges) may precede the untabulated ones
            extra = listed[:len(listed) - len(explicit)]
            k = 0
            for h in tab:
                if k < len(extra) and extra[k][0] == h[0] and centres_same(extra[k][2], h[2], False):
                    k += 1
            if k == len(extra):
                listed = listed[len(extra):]
        if not hills_close(listed, explicit, not has_restart(c)):
            return ("restart:hills-lost-on-reading-state" if restarted and len(listed) < len(explicit) else "schedule:hill-list", "step %d (it=%d): explicit hills are %s, the schedule prescribes %s" % (
                n, it, [(h[0], h[2]) for h in im["hills"]], [(h[0], h[2]) for h in explicit]), n), facts
        eE, eF, ins = spec_bias(c, geom, x, tab, pend)
        if not ins and c["use_grids"]:
            facts["outside_steps"] += 1
        if any(t != t or abs(t) == float("inf") for f in eF for t in f):
            # a unit vector exactly opposite to the centre of a hill in range: the gradient of the squared angle is
            # singular there (colvarvalue::dist2_grad divides by sin = 0); ambiguous for this property, counted
            facts["antipodal_steps"] += 1
            if not close(im["E"], eE):
                return ("energy", "step %d (it=%d, x=%s): energy %r, sum of the deposited hills gives %r" % (n, it, x, im["E"], eE), n), facts
            continue
        if not close(im["E"], eE) or not force_close(tangential(c, im["F"], x), tangential(c, eF, x)):
            what = "energy %r force %s, sum of the deposited hills gives energy %r force %s" % (im["E"], im["F"], eE, eF)
            misaligned = c["use_grids"] and any(v["gper"] and not (g[1] <= xv[0] < g[2]) for v, g, xv in zip(c["vars"], geom, x))
            asconf = [[(h[0], h[1], h[2], list(cur["sigmas"])) for h in l] for l in (tab, pend)]
            if misaligned:
                sig = "periodic:grid-not-aligned-with-wrapping-interval"
            elif hetero and c["use_grids"] and not ins and close(im["E"], esum(c, x, im["off"]) + esum(c, x, pend)) and \
                    any(h[3] != cur["sigmas"] and not any(g[0] == h[0] and g[2] == h[2] for g in im["off"]) and kern(c, x, h) != 0.0 for h in tab):
                # a hill wider than those of the current run, in range of x, is not among the hills kept for use off the grid
                sig = "reconf:off-grid-margin-from-configured-width"
            elif hetero and (not c["use_grids"] or not ins or cur["keep"]) and close(im["E"], spec_bias(c, geom, x, asconf[0], asconf[1])[0]):
                # the energy is what the hills would give if all of them had the widths of the current configuration
                sig = "widths:hills-evaluated-with-the-configured-width-not-their-own"
            elif c["use_grids"] and not ins and restarted and e[0] == "step" and \
                    any(not any(g[0] == h[0] for g in im["off"]) for h in off_at_restart) and e[1] is not None and \
                    not any(ev[0] == "rebin" for ev in c["events"]):
                sig = "restart:hills-lost-on-reading-state"
            elif c["use_grids"] and not ins:
                eo = esum(c, x, im["off"]) + esum(c, x, pend)
                dbl = [h for h in pend if any(g[0] == h[0] and g[2] == h[2] for g in im["off"])]
                if close(im["E"], eo) and dbl and esum(c, x, dbl) != 0.0 and close(im["E"] - esum(c, x, dbl), eE):
                    sig = "outside-grid:unprojected-hill-counted-twice"
                elif close(im["E"], eo) and facts["rebins"] > 0:
                    sig = "rebin:off-grid-hills-not-recounted-on-new-grid"
                elif close(im["E"], eo):
                    sig = "outside-grid:hills-far-from-edges-dropped"
                else:
                    sig = "outside-grid:energy"
            elif c["use_grids"] and any(v["expand"] for v in c["vars"]) and geom != geom0:
                sig = "expand:bins-added-by-expansion-miss-earlier-hills"
            else:
                sig = "energy" if not close(im["E"], eE) else "force"
            return (sig, "step %d (it=%d, x=%s, %s): %s" % (n, it, x, "without grids" if not c["use_grids"] else "inside the grid" if ins else "outside the grid", what), n), facts
        if ins and c["use_grids"] and all(v["kind"] == 0 and not v["periodic"] for v in c["vars"]):
            # C05_discretisation_energy: the returned energy against the analytic sum of all hills at the actual position
            bound = sum(abs(h[1]) * (math.exp(-0.5) * sum(v["w"] / (2 * si) for v, si in zip(c["vars"], h[3])) + math.exp(-11.5)) for h in tab)
            dev = abs(im["E"] - esum(c, x, tab + pend))
            facts["bound_checks"] += 1
            if bound > 0:
                facts["bound_max_ratio"] = max(facts["bound_max_ratio"], dev / bound)
            if dev > bound * (1 + 1e-9) + 1e-12:
                return ("discretisation:bound-exceeded", "step %d (it=%d, x=%s): energy %r differs from the analytic sum of all hills %r by "
                        "more than sum|W| * (exp(-1/2) sum w/(2 sigma) + exp(-23/2)) = %r" % (n, it, x, im["E"], esum(c, x, tab + pend), bound), n), facts
        if im.get("bias") != im["E"] or (im["af"] != [[tsf * t for t in f_] for f_ in im["F"]] and n not in alive2):
            return ("applied:bias-output", "step %d: bias energy/applied force reported by the module (%r, %s) differ from "
                    "the bias's own (%r, %s)" % (n, im.get("bias"), im["af"], im["E"], im["F"]), n), facts
    return None, facts


# ------------------------------------------------------------------------------ findings replayed on every run
def _var(lower=0.0, nx=8, w=1.0, sigma=1.0, expand=False, **kw):
    v = {"kind": 0, "w": w, "nx": nx, "periodic": False, "gper": False, "expand": expand, "hlo": False, "hup": False,
         "lower": lower, "upper": lower + w * nx, "sigma": sigma}
    v.update(kw)
    return v


def _par(sigmas, hw=0.0, W=1.0, freq=1, sig_mode=False, gfreq=1, wt=False, bt=300.0, keep=False):
    return {"sig_mode": sig_mode, "hw": hw, "sigmas": list(sigmas), "W": W, "freq": freq, "gfreq": gfreq, "wt": wt, "bt": bt, "keep": keep}


def _cfg(cid, vars_, events, **kw):
    c = {"id": cid, "vars": vars_, "use_grids": True, "sig_mode": False, "hw": 2.0, "W": 1.0, "freq": 1,
         "keep": False, "wt": False, "bt": 300.0, "stepzero": False, "gfreq_explicit": False, "gfreq": 1, "it0": 0, "eb": None, "pmf": False, "pmf_keep": False,
         "events": [("step", False, list(z)) if not isinstance(z, (str, tuple)) else ((z,) if isinstance(z, str) else z) for z in events]}
    c.update(kw)
    if not c["gfreq_explicit"]:
        c["gfreq"] = c["freq"]
    return c


def witnesses():
    """fixed scenarios replayed on every run: one per defect found by this check (all repaired by `fix:` commits,
    see known_findings.txt) and one per feature of the model"""
    return [
        # gaussianSigmas = 1 bin, one hill 1.5 bins inside the lower edge at step 2, then a quarter of a bin outside
        _cfg("w_outside", [_var()], [[1.5], [1.5], [1.5], [-0.25]], sig_mode=True, hw=0.0, freq=2),
        # well-tempered deposit outside the grid, in two dimensions where the out-of-range index (3,-1) has the
        # address of bin (2,7), and in one dimension where it is before the array
        _cfg("w_wt_outside", [_var(), _var()], [[3.5, 0.5], [3.5, 0.5], [3.5, -0.25]], wt=True),
        _cfg("w_wt_outside_1d", [_var()], [[0.5], [0.5], [-0.25]], wt=True),
        # well-tempered, gridsUpdateFrequency 2 > newHillFrequency 1: at step 2 the hill of step 1 is not yet on the grid
        _cfg("w_wt_unprojected", [_var()], [[3.5], [3.5], [3.5]], wt=True, gfreq_explicit=True, gfreq=2),
        # a hill deposited outside the grid and not yet projected is in hills_off_grid and after new_hills_begin
        _cfg("w_double_count", [_var()], [[3.5], [-0.25]], gfreq_explicit=True, gfreq=2),
        # expandBoundaries with gaussianSigmas: the bin added at step 2 must receive the hill of step 1
        _cfg("w_expand", [_var(expand=True)], [[1.5], [1.5], [0.5], [-0.5]], sig_mode=True, hw=0.0),
        # periodic variable wrapped to [-4,4) with a periodic grid on [0,8)
        _cfg("w_periodic_misaligned", [_var(periodic=True, gper=True, P=8.0, c=0.0)], [[-1.5], [-1.5], [-1.5], [2.5], [-1.5]]),
        # the state is written between two projections
        _cfg("w_save", [_var()], [[3.5], [3.5], "save", [3.25], [-0.25]], gfreq_explicit=True, gfreq=4),
        # restart: without grids every hill, with grids the hills near the edges, must survive (energy off the grid)
        _cfg("w_restart_nogrid", [_var()], [[0.5], [0.5], [0.5], [-0.25], "restart", [-0.25], [0.5]], use_grids=False),
        _cfg("w_restart_grid", [_var()], [[0.5], [0.5], [0.5], [-0.25], "restart", [-0.25], [0.5]]),
        _cfg("w_restart_twice", [_var()], [[0.5], [0.5], "restart", [0.5], [-0.25], "restart", [-0.25], [0.5]], keep=True),
        # the state read back by the same instance (pre-existing hills pruned), with and without grids
        _cfg("w_reload_model", [_var()], [[0.5], [0.5], [0.5], [-0.25], "reload", ("step", True, [-0.25]), [0.5], [-0.5]]),
        _cfg("w_reload_model_nogrid", [_var()], [[0.5], [0.5], [-0.25], "reload", ("step", True, [-0.25]), [0.5]], use_grids=False),
        # rebinGrids without keepHills (map_grid) onto the expanded grid extended by whole bins: expandBoundaries, hillWidth 2:
        # the grid [0,8) becomes [-4,11) at the first step; new boundaries [-6,13)
        _cfg("w_rebin_from_grids", [_var(expand=True)], [[3.5], [3.5], [4.5], ("rebin", [(19, -6.0, 13.0)]), [4.5], [-5.5], [12.25]]),
        # restart with rebinGrids from the kept hills onto a grid cut INWARDS: hills at 9.5 were 10.5 bins from the old upper
        # edge (not near), and are 1.5 bins from the new one; then excursions beyond the new boundaries
        _cfg("w_rebin_inwards", [_var(nx=20)], [[9.5], [9.5], [9.5], [10.5], ("rebin", [(11, 0.0, 11.0)]), [10.5], [11.25], [11.75], [-0.5]], keep=True),
        _cfg("w_rebin_inwards_low", [_var(nx=20, sigma=0.5)], [[10.5], [10.5], [9.5], ("rebin", [(10, 8.5, 18.5)]), [9.5], [8.25], [7.5], [18.75]], keep=True, hw=1.0),
        # restart with rebinGrids from the kept hills onto a shifted, larger grid
        _cfg("w_rebin", [_var()], [[0.5], [1.5], [3.25], ("rebin", [(12, -2.5, 9.5)]), [3.25], [-0.75], [9.75]], keep=True),
        # ebMeta: ramp during 3 steps, hills inside, beyond both boundaries (closest edge bin), with well-tempered
        _cfg("w_ebmeta", [_var()], [[3.5], [3.5], [0.5], [7.5], [3.5], [-0.25], [8.5], [2.5]],
             eb={"raw": [1.0, 2.0, 4.0, 8.0, 8.0, 4.0, 2.0, 0.0], "equil": 3}),
        _cfg("w_ebmeta_wt", [_var()], [[3.5], [3.5], [3.5], [-0.25], [3.25]], wt=True,
             eb={"raw": [1.0, 2.0, 4.0, 8.0, 8.0, 4.0, 2.0, 1.0], "equil": 0}),
        # ebMeta with the default ebMetaEquilSteps 0 and a hill at step 0 (stepZeroData)
        _cfg("w_ebmeta_minval0", [_var()], [[3.5], [3.5], [0.5], [7.5], [2.5]],
             eb={"raw": [0.0, 2.0, 4.0, 8.0, 8.0, 4.0, 0.5, 0.0], "equil": 0, "minval": 0.0}),
        _cfg("w_ebmeta_minval", [_var()], [[3.5], [3.5], [0.5], [7.5], [2.5]],
             eb={"raw": [0.0, 2.0, 4.0, 8.0, 8.0, 4.0, 0.5, 0.0], "equil": 0, "minval": 0.25}),
        _cfg("w_ebmeta_pmf", [_var()], [[3.5], [3.5], [0.5], "pmf", [7.5], [2.5], "pmf"], pmf=True,
             eb={"raw": [1.0, 2.0, 4.0, 8.0, 8.0, 4.0, 2.0, 1.0], "equil": 0}),
        _cfg("w_ebmeta_step0", [_var()], [[3.5], [3.5], [2.5]], stepzero=True,
             eb={"raw": [1.0, 2.0, 4.0, 8.0, 8.0, 4.0, 2.0, 1.0], "equil": 0}),
        # ebMeta: the ramp runs on the absolute step: a job started at step 5, and one restarted inside / after the ramp
        _cfg("w_ebmeta_it0", [_var()], [[3.5], [3.5], [0.5], [7.5], [2.5]], it0=5,
             eb={"raw": [1.0, 2.0, 4.0, 8.0, 8.0, 4.0, 2.0, 1.0], "equil": 20}),
        _cfg("w_ebmeta_restart", [_var()], [[3.5], [3.5], [0.5], "restart", [0.5], [7.5], [2.5], [1.5], [6.5], "restart", [6.5], [0.5], [5.5]],
             eb={"raw": [1.0, 2.0, 4.0, 8.0, 8.0, 4.0, 2.0, 1.0], "equil": 6}, binary=True),
        # the free-energy file: plain, and well-tempered with keepFreeEnergyFiles; a hill not yet tabulated is not in it
        _cfg("w_pmf", [_var()], [[3.5], [3.5], [5.25], "pmf", [1.5], "pmf"], pmf=True),
        _cfg("w_pmf_wt", [_var(), _var(nx=4, w=2.0, sigma=2.0)], [[3.5, 4.5], [3.5, 4.5], [5.25, 1.0], "pmf", [1.5, 7.0], "pmf", [1.5, 7.0], "pmf"],
             pmf=True, pmf_keep=True, wt=True, gfreq_explicit=True, gfreq=2),
        # the run that reads the state has other hill parameters (hillWidth 2 -> 1 or 4, hillWeight, newHillFrequency): every
        # hill keeps the width it was deposited with.  Without grids; with grids and excursions off the grid (the hills at
        # 3.5, of width sigma = 2 bins, are 3.5 bins inside the edge: near it for their own width, not for hillWidth 0.5);
        # with keepHills and rebinGrids (the kept hills are projected again, each with its own width)
        _cfg("w_reconf_nogrid", [_var()], [[0.5], [0.5], [1.5], ("reconf", _par([0.5], hw=1.0, W=0.5, freq=2)), [1.5], [1.0], [1.0], [-0.25]], use_grids=False),
        _cfg("w_reconf_grid_narrower", [_var(sigma=2.0)], [[3.5], [3.5], [3.5], ("reconf", _par([0.25], hw=0.5)), [3.5], [-0.25], [-1.0], [0.5]], hw=4.0),
        _cfg("w_reconf_grid_wider", [_var(sigma=0.5)], [[4.5], [4.5], [0.5], ("reconf", _par([2.0], hw=4.0, W=2.0)), [0.5], [-0.25], [5.5], [-1.5]], hw=1.0),
        _cfg("w_reconf_sigmas", [_var(), _var(nx=4, w=2.0, sigma=2.0)], [[3.5, 4.5], [3.5, 4.5], [0.5, 1.0], ("reconf", _par([0.5, 3.0], sig_mode=True)),
                                                                 [0.5, 1.0], [-0.25, 1.0], [0.5, -0.5], [2.5, 3.0]], gfreq_explicit=True, gfreq=2),
        _cfg("w_reconf_rebin", [_var(nx=12)], [[5.5], [5.5], [6.5], ("reconf", _par([0.5], hw=1.0, keep=True)), [6.5], [4.5], ("rebin", [(8, 2.5, 10.5)]), [4.5], [2.25], [10.75], [5.0]], keep=True),
        # wellTempered switched on (biasTemperature 1000), then off again, and gridsUpdateFrequency 1 -> 3, between runs
        _cfg("w_reconf_wt", [_var()], [[3.5], [3.5], [3.25], ("reconf", _par([1.0], hw=2.0, wt=True, bt=1000.0, gfreq=3)), [3.25], [3.5], [3.0], [-0.25],
                                      ("reconf", _par([1.0], hw=2.0)), [-0.25], [3.5], [3.5]]),
        # keepHills switched off between runs: the hills of the state stay listed until the next projection, then go
        _cfg("w_reconf_keep_off", [_var()], [[3.5], [3.5], [0.5], ("reconf", _par([1.0], hw=2.0, keep=False, gfreq=2)), [0.5], [3.25], [-0.25], [3.5], [-0.5]], keep=True),
        _cfg("w_reconf_expand", [_var(expand=True)], [[3.5], [3.5], [1.5], ("reconf", _par([0.5], hw=1.0)), [1.5], [0.25], [-0.25], [-1.5]]),
        # vector variables without grids
        _cfg("w_vec3", [_var(kind=1)], [[[1.0, 0.0, 0.5]], [[1.0, 0.25, 0.5]], [[0.5, 0.25, 0.5]], [[0.5, 0.5, 0.0]]], use_grids=False, wt=True),
        _cfg("w_quat", [_var(kind=3)], [[[1.0, 0.0, 0.0, 0.0, 1.0, 0.0, 0.0, 0.0, 1.0, -1.0, -1.0, -1.0]],
                                        [[1.0, 0.125, 0.0, 0.0, 1.0, 0.0, 0.0, 0.0, 1.0, -1.0, -1.0, -1.0]],
                                        [[0.0, 1.0, 0.0, -1.0, 0.0, 0.0, 0.0, 0.0, 1.0, 1.0, -1.0, -1.0]],
                                        [[0.0, 1.0, 0.25, -1.0, 0.0, 0.0, 0.0, 0.0, 1.0, 1.0, -1.0, -1.0]]], use_grids=False, wt=True),
        _cfg("w_vector1d", [_var(kind=4)], [[[1.0, 0.0, 0.5, 0.0, 0.25, 0.0]], [[1.0, 0.25, 0.5, 0.0, 0.25, 0.0]], [[0.5, 0.25, 0.5, 0.25, 0.25, 0.0]],
                                            [[0.5, 0.5, 0.0, 0.5, 0.0, 0.25]]], use_grids=False, wt=True),
        _cfg("w_unit3", [_var(kind=2)], [[[1.0, 0.0, 0.5]], [[1.0, 0.25, 0.5]], [[0.5, 0.25, 0.5]], [[0.5, 0.5, 0.0]]], use_grids=False),
    ]


def run_scenarios(run, exe, model, cs, d, dump=True):
    """run implementation and model on the scenarios; returns (c, impl_steps, model_steps, scenario text, ...)"""
    res = []
    mlines = []
    for k, c in enumerate(cs):
        sc = os.path.join(d, "s%s.scn" % c["id"])
        txt = scenario_text(c, dump)
        open(sc, "w").write(txt)
        for fn, content in scenario_files(c).items():
            open(os.path.join(d, fn), "w").write(content)
        rcv, o, ev = V.sh([exe, sc], cwd=d, timeout=120)
        os.remove(sc)
        try:
            impl = parse_impl(c, o) if "CONFIG err=ok" in o else None
        except (ValueError, IndexError, KeyError):
            impl = []
        # the model receives the values the module saw (exact hex)
        nst = len(step_events(c))
        if impl and len(impl) == nst and all(len(s["cv"]) == len(c["vars"]) for s in impl):
            xs = [s["cv"] for s in impl]
        else:
            xs = [[[expected_scalar(v, z)] if v["kind"] == 0 else list(z)[:NCOMP[v["kind"]]] for v, z in zip(c["vars"], st[3])] for st in steps_of(c)]
        mlines.append(model_case(c, xs, dump))
        try:
            traj = parse_traj(c, o)
        except (ValueError, IndexError):
            traj = None
        c["_last_traj"] = last_traj_segment(c, o) if traj is not None else None
        res.append([c, impl, None, txt, rcv, o, traj, mlines[-1]])
    rc, mout, e = V.run_lines(model, mlines, timeout=900)
    for k, rec in enumerate(res):
        try:
            rec[2] = parse_model(rec[0], mout[k]) if k < len(mout) else None
        except (ValueError, IndexError, KeyError):
            rec[2] = None
    return res


def check_one(run, c, impl, mo, txt, rcv, o, traj, mline):
    nd = len(c["vars"])
    key = "s%s" % c["id"]
    replay_d = {"kind": "scenario", "scenario": txt, "model_case": mline, "files": scenario_files(c),
                "config": {k: v for k, v in c.items() if k != "events" and not k.startswith("_")}}
    if impl is None:
        run.count(key, False)
        run.mismatch("config", {"scenario": txt}, o[-400:], "accepted")
        return
    nst = len(step_events(c))
    if rcv != 0 or traj is None or len(impl) != nst or any("E" not in s or "F" not in s for s in impl):
        run.count(key, False)
        run.violation("crash", "the module died or lost the bias (rc=%d) after %d of %d steps" % (rcv, len(impl), nst), replay_d)
        return
    bad, facts = oracle(c, impl, traj)
    nontriv = facts["deposits"] >= 3 and (facts["projections"] >= 1 or not c["use_grids"]) and \
        (facts["outside_steps"] >= 1 or not c["use_grids"] or all(v["gper"] for v in c["vars"]))
    run.count(key, nontriv)
    run.dist("nd=%d" % nd)
    run.dist("grids" if c["use_grids"] else "nogrids")
    for kk in ("wt", "keep", "sig_mode", "stepzero", "gfreq_explicit"):
        if c[kk]:
            run.dist(kk)
    run.dist("periodic_vars", sum(1 for v in c["vars"] if v["periodic"]))
    run.dist("expanding_vars", sum(1 for v in c["vars"] if v["expand"]))
    run.dist("vector_vars", sum(1 for v in c["vars"] if v["kind"] == 1))
    run.dist("unit_vector_vars", sum(1 for v in c["vars"] if v["kind"] == 2))
    run.dist("quaternion_vars", sum(1 for v in c["vars"] if v["kind"] == 3))
    run.dist("vector1d_vars", sum(1 for v in c["vars"] if v["kind"] == 4))
    run.dist("steps", len(impl))
    run.dist("second_bias_steps", o.count("BIAS m2 "))
    run.dist("rejected_configs", o.count("CONFIG err=") - o.count("CONFIG err=ok"))
    if c["it0"] >= 2 ** 31 - 3:
        run.dist("start_step_beyond_2^31")
    if c.get("scale"):
        run.dist("rescaled_2^%d" % c["scale"])
    if c.get("medium") == "mem" and has_restart(c):
        run.dist("state_from_buffer_or_string")
    if c["keep"] and c["use_grids"] and any(e[0] == "reconf" and not e[1].get("keep", True) for e in c["events"]):
        run.dist("keepHills_switched_off")
    if any(e[0] == "breload" for e in c["events"]):
        run.dist("bias_level_reload")
    for kk in ("deposits", "projections", "outside_steps", "expansions", "saves", "wt_outside", "wrapped_steps", "restarts", "rebins", "antipodal_steps", "ebmeta_deposits", "reloads", "rebins_from_grids", "bound_checks", "pmf_files", "reconfs", "hetero_steps", "asleep_steps"):
        run.dist(kk, facts[kk])
    d_ = run.cov["distribution"]
    d_["bound_max_ratio"] = max(d_.get("bound_max_ratio", 0.0), facts["bound_max_ratio"])
    if bad:
        sig, text, n = bad
        run.dist("oracle:" + sig)
        run.violation(sig, text, dict(replay_d, step=n))
    # tie
    impl_all = impl
    impl = [im for im, t in zip(impl_all, steps_of(c)) if t[0] % c.get("tsf", 1) == 0]
    if not impl:
        return          # the bias slept at every step of this history (timeStepFactor): nothing to tie
    if mo is None or len(mo) != len(impl):
        run.mismatch("model-output", {"model_case": mline}, len(impl), None if mo is None else len(mo))
        return
    if c.get("eb"):
        tp = target_processed(c)
        dumps = c.get("_target_dump") or []
        if not dumps or any(not vec_close(t, tp) for t in dumps):
            run.violation("ebmeta:target-normalisation", "target distribution as used by ebMeta %s, expected (raw values raised to 1e-6 "
                          "of the maximum, normalised, times exp(entropy)) %s" % (dumps[:1], tp), replay_d)
    mp, ip = c.get("_model_pmf") or [], [d_[1] for d_ in (c.get("_pmf_dump") or [])]
    if not c.get("eb") and (len(mp) != len(ip) or any(not vec_close(a, b) for a, b in zip(ip, mp))):
        run.mismatch("pmf", dict(replay_d), ip[:2], mp[:2])
    mt, it_ = c.get("_model_traj"), c.get("_last_traj")
    if mt is not None and it_ is not None:
        if len(mt) != len(it_) or any(a[0] != b[0] or not close(a[1], b[1], 1e-9) or not centres_same(a[2], b[2], False) or not vec_close(a[3], b[3]) for a, b in zip(mt, it_)):
            run.mismatch("hills_trajectory", dict(replay_d), [(h[0], h[1]) for h in it_], [(h[0], h[1]) for h in mt])
    for n, (im, ms) in enumerate(zip(impl, mo)):
        diff = compare_step(c, im, ms)
        if diff:
            keys = ("E", "F", "nhills", "nnew", "noff", "noffnew", "hills", "off", "geom")
            run.mismatch(diff, dict(replay_d, step=n), {k: im.get(k) for k in keys}, {k: ms.get(k) for k in keys})
            break


def reload_witness(run, exe, d):
    """a state read by an instance that already holds hills (outside the model): the energy at the same position must be
    the same before and after, with and without grids"""
    for name, use_grids in (("nogrid", False), ("grid", True)):
        c = _cfg("w_reload_" + name, [_var()], [[0.5], [0.5], [0.5], [-0.25]], use_grids=use_grids)
        L = scenario_text(c, False).split("\n")
        L = [l for l in L if l and l != "metatraj m"]
        L += ["save text c05rl.state", "load c05rl.state", "pos 1 0 0 %s" % V.hexf(-0.25), "runboundary", "step", "metadump m 0"]
        txt = "\n".join(L) + "\n"
        sc = os.path.join(d, "reload_%s.scn" % name)
        open(sc, "w").write(txt)
        rcv, o, ev = V.sh([exe, sc], cwd=d, timeout=120)
        os.remove(sc)
        en = [fh(l.split()[1]) for l in o.split("\n") if l.startswith("MENERGY")]
        ok = rcv == 0 and len(en) == 5 and "LOAD err=ok" in o
        run.count("w_reload_" + name, ok)
        if not ok:
            run.violation("crash", "reading a state into an instance that holds hills failed (rc=%d)" % rcv, {"kind": "scenario", "scenario": txt})
        elif not close(en[4], en[3]):
            run.violation("restart:hills-lost-on-reading-state",
                          "state written and read back by the same instance (%s grids): energy at -0.25 was %r before and is %r after"
                          % ("with" if use_grids else "without", en[3], en[4]), {"kind": "scenario", "scenario": txt})


# ------------------------------------------------------------------------------ multiple replicas (oracle only)
def gen_replica_case(r, k):
    """two walkers sharing their hills through files: B runs first (alone in the registry), then A, which reads the
    state and the hills of B at its steps that are multiples of replicaUpdateFrequency"""
    nd = r.choice([1, 1, 2])
    f = {"nd": nd, "use_grids": r.random() < 0.8, "p_expand": 0.0, "p_eb": 0.0, "p_restart": 0.0, "p_save": 0.0, "p_pmf": 0.0, "p_tsf": 0.0,
         "keep": False, "p_vector": 0.0, "periodic": False, "p_out": r.choice([0.1, 0.3])}
    A = gen_scn(r, "ra%s" % k, dict(f))
    B = json.loads(json.dumps(A))
    B["events"] = [tuple(e) for e in gen_scn(r, "x", dict(f, nd=nd))["events"]]
    # the same variables for both walkers: positions of B drawn around the grid of A
    lo = [v["lower"] for v in A["vars"]]
    B["events"] = []
    for s_ in range(r.randint(4, 12)):
        B["events"].append(("step", False, [v["lower"] + r.randint(-8, v["nx"] * 4 + 8) * v["w"] / 4 for v in A["vars"]]))
    for v in A["vars"]:
        v["hlo"] = v["hup"] = False
    B["vars"] = json.loads(json.dumps(A["vars"]))
    B["id"] = "rb%s" % k
    B["it0"] = 0
    reg = "c05_reg_%s.txt" % k
    ruf = r.choice([1, 2, 3, 4])
    if r.random() < 0.6:
        A["it0"] = r.randint(1, 7)       # the first step of A is then usually not one at which the replicas are read
    others = [B]
    if r.random() < 0.5:
        # a third walker (started at step 1 with replicaUpdateFrequency 1000: it never reads the files of the second)
        C = json.loads(json.dumps(B))
        C["id"] = "rc%s" % k
        C["it0"] = 1
        C["events"] = [("step", False, [v["lower"] + r.randint(-8, v["nx"] * 4 + 8) * v["w"] / 4 for v in A["vars"]]) for _ in range(r.randint(3, 9))]
        others.append(C)
    for c, rid, u in [(A, "A", ruf)] + [(o_, "BCD"[i_], 1000) for i_, o_ in enumerate(others)]:
        c["noise"] = []
        c["pmf"] = c["pmf_keep"] = False
        c["binary"] = False
        c["meta_extra"] = ["multipleReplicas on", "replicaID %s" % rid, "replicasRegistry %s" % reg, "replicaUpdateFrequency %d" % u]
        c["outprefix"] = "c05w%s_%s" % (rid, k)
    A["ruf"] = ruf
    A["registry"] = reg
    return A, others


def replica_oracle(c, impl, traj, fhills):
    """walker A: own hills on schedule + the hills of the other walker, received at the first step that is a multiple of
    replicaUpdateFrequency (pending until the next multiple of gridsUpdateFrequency)"""
    st = steps_of(c)
    tab, pend, ftab, fpend = [], [], [], []
    received = False
    traj = list(traj)
    geom = [(v["nx"], v["lower"], v["upper"]) for v in c["vars"]]
    nrec = 0
    for n, (it, rel, cont, zs) in enumerate(st):
        im = impl[n]
        x = im["cv"]
        deposit = (it % c["freq"] == 0) and ((rel > 0 and not cont) or c["stepzero"])
        if deposit:
            wgt = c["W"]
            if c["wt"]:
                vhere = spec_bias(c, geom, x, tab + ftab, pend + fpend)[0]
                vown = spec_bias(c, geom, x, tab, pend)[0]
                wgt = c["W"] * math.exp(-vhere / (c["bt"] * KB))
            if not traj or traj[0][0] != it:
                return ("replicas:schedule", "step %d (it=%d): no hill added by the walker" % (n, it), n), nrec
            seen = traj.pop(0)
            if not close(seen[1], wgt):
                own = c["wt"] and close(seen[1], c["W"] * math.exp(-vown / (c["bt"] * KB)))
                return ("replicas:well-tempered-height-from-own-hills-only" if own else "replicas:hill-weight",
                        "step %d (it=%d): walker A deposits at %s a hill of weight %r; hillWeight*exp(-V/kT) with V the bias at that "
                        "point (own hills and those received from walker B) is %r" % (n, it, x, seen[1], wgt), n), nrec
            pend.append((it, wgt, [list(t) for t in x], [v["sigma"] for v in c["vars"]]))
        if c["use_grids"] and it % c["gfreq"] == 0:
            tab += pend
            pend = []
            ftab += fpend
            fpend = []
        if it % c["ruf"] == 0 and not received:
            received = True
            fpend = list(fhills)
        if received:
            nrec += 1
        eE, eF, ins = spec_bias(c, geom, x, tab + ftab, pend + fpend)
        if not close(im["E"], eE) or not force_close(im["F"], eF):
            return ("replicas:energy", "step %d (it=%d, x=%s): energy %r force %s; own hills + the %d hills of walker B give %r %s" % (
                n, it, x, im["E"], im["F"], len(fhills) if received else 0, eE, eF), n), nrec
    return None, nrec


def fixed_replica_case():
    """walker B leaves three hills at 3.5; walker A, well-tempered (biasTemperature 300), starts there at
    step 1, reads them at step 2 (replicaUpdateFrequency 2, on the absolute step): its hills are scaled by the bias of both walkers"""
    ev = lambda zs: [("step", False, [z]) for z in zs]
    A = _cfg("ra_w", [_var()], [], wt=True, it0=1)
    B = _cfg("rb_w", [_var()], [], wt=True)
    A["events"], B["events"] = ev([3.5, 3.5, 3.5, 3.25, -0.25, 3.5]), ev([3.5, 3.5, 3.5, 3.5])
    for c, rid, u in ((A, "A", 2), (B, "B", 1000)):
        c["meta_extra"] = ["multipleReplicas on", "replicaID %s" % rid, "replicasRegistry c05_reg_w.txt", "replicaUpdateFrequency %d" % u]
        c["outprefix"] = "c05w%s_w" % rid
    A["ruf"] = 2
    return A, [B]


def replica_cases(run, exe, r, d, ncases, model=None):
    ties = []
    for k in ["w"] + list(range(ncases)):
        A, others = fixed_replica_case() if k == "w" else gen_replica_case(r, k)
        for fn in os.listdir(d):
            if fn.startswith("c05w") or fn.startswith("c05_reg_") or fn.endswith(".files.txt"):
                os.remove(os.path.join(d, fn))
        outs = []
        for c in others + [A]:
            sc = os.path.join(d, "s%s.scn" % c["id"])
            txt = scenario_text(c, True)
            open(sc, "w").write(txt)
            rcv, o, ev = V.sh([exe, sc], cwd=d, timeout=120)
            os.remove(sc)
            try:
                impl = parse_impl(c, o) if "CONFIG err=ok" in o else None
                traj = parse_traj(c, o)
            except (ValueError, IndexError, KeyError):
                impl, traj = None, None
            outs.append((c, txt, rcv, o, impl, traj))
        rp = {"kind": "replicas", "scenario_others": [t[1] for t in outs[:-1]], "scenario": outs[-1][1]}
        ok = all(rcv == 0 and impl is not None and traj is not None and len(impl) == len(step_events(c)) and
                 all("E" in s_ and "F" in s_ for s_ in impl) and "OUTPREFIX err=ok" in o for (c, txt, rcv, o, impl, traj) in outs)
        if not ok:
            run.count("replicas%s" % k, False)
            run.violation("crash", "a walker of a two-replica run died or lost the bias (rc=%s)" % [t[2] for t in outs], rp)
            continue
        badB = None
        for t in outs[:-1]:
            badB = badB or oracle(t[0], t[4], t[5])[0]
        if badB:
            run.count("replicas%s" % k, False)
            run.violation("replicas:first-walker:" + badB[0], badB[1], rp)
            continue
        fh_ = [h for t in outs[:-1] for h in t[5]]
        bad, nrec = replica_oracle(A, outs[-1][4], outs[-1][5], fh_)
        run.count("replicas%s" % k, nrec >= 2 and len(fh_) >= 1)
        run.dist("replica_cases")
        run.dist("walkers=%d" % len(outs))
        run.dist("replica_steps_with_foreign_hills", nrec)
        if bad:
            run.violation(bad[0], bad[1], dict(rp, step=bad[2]))
        elif model and not A["wt"]:
            # tie with the model: own state + one mirror object holding the hills received (C05_replicas_energy/_force);
            # well-tempered walkers are left to the oracle (the model's own heights do not see the mirrors)
            stA = steps_of(A)
            first = [n for n, t in enumerate(stA) if t[0] % A["ruf"] == 0]
            if first:
                ties.append((A, outs[-1][4], model_case(A, [s_["cv"] for s_ in outs[-1][4]], False, (first[0], fh_)), rp))
    if ties:
        rc, mout, e = V.run_lines(model, [t[2] for t in ties], timeout=600)
        for k, (A, impl, mline, rp) in enumerate(ties):
            try:
                mo = parse_model(A, mout[k]) if k < len(mout) else None
            except (ValueError, IndexError, KeyError):
                mo = None
            run.dist("replica_model_ties")
            if mo is None or len(mo) != len(impl):
                run.mismatch("replicas-model-output", dict(rp, model_case=mline), len(impl), None if mo is None else len(mo))
                continue
            for n, (im, ms) in enumerate(zip(impl, mo)):
                if not close(im["E"], ms["E"]) or not force_close(im["F"], ms["F"]):
                    run.mismatch("replicas-energy", dict(rp, model_case=mline, step=n), {"E": im["E"], "F": im["F"]}, {"E": ms["E"], "F": ms["F"]})
                    break


def keep_witness(run, exe, d):
    """keepHills switched on between two runs, then rebinGrids: the first run (keepHills off) leaves three hills at 10.5 in the
    grids only; the second (keepHills on) adds two at 5.5; the third rebins onto [2,18).  Rebinning must change nothing:
    the energy at 10.5 is that of all five hills at the centre of its bin (outside the model: oracle only)"""
    c = _cfg("w_keep_on", [_var(nx=20)], [[10.5], [10.5], [10.5], [10.5]])
    c2 = dict(c, keep=True)
    first, natoms = atoms_of(c)
    L = scenario_text(c, False).split("\n")
    L = [l for l in L if l and l != "metatraj m"]
    L += ["save text c05k1.state", "new"] + config_text(c2) + ["load c05k1.state"]
    for z in (10.5, 5.5, 5.5, 4.5):
        L += ["pos 1 0 0 %s" % V.hexf(z), "step", "metadump m 0"]
    L += ["save text c05k2.state", "new"] + config_text(c2, [(16, 2.0, 18.0)], True) + ["load c05k2.state"]
    for z in (4.5, 10.5, 1.5):
        L += ["pos 1 0 0 %s" % V.hexf(z), "step", "metadump m 0"]
    txt = "\n".join(L) + "\n"
    sc = os.path.join(d, "keep_on.scn")
    open(sc, "w").write(txt)
    rcv, o, ev = V.sh([exe, sc], cwd=d, timeout=120)
    os.remove(sc)
    en = [fh(l.split()[1]) for l in o.split("\n") if l.startswith("MENERGY")]
    ok = rcv == 0 and len(en) == 11 and o.count("LOAD err=ok") == 2
    run.count("w_keep_on", ok)
    if not ok:
        run.violation("crash", "keepHills switched on between runs, then rebinGrids: failed (rc=%d, %d energies)" % (rcv, len(en)), {"kind": "scenario", "scenario": txt})
        return
    sg = [1.0]
    hills = [(1, 1.0, [[10.5]], sg), (2, 1.0, [[10.5]], sg), (3, 1.0, [[10.5]], sg), (4, 1.0, [[5.5]], sg), (5, 1.0, [[5.5]], sg), (6, 1.0, [[4.5]], sg)]
    # third run: first step at 4.5 (step 6, no hill), then 10.5 at step 7 (a hill there, pending), then 1.5 (off the new grid)
    exp_on = esum(c, [[10.5]], hills) + 1.0
    if not close(en[9], exp_on):
        run.violation("keepHills:switched-on-then-rebin-loses-hills",
                      "keepHills off for steps 0-3 (three hills at 10.5), on from step 3 (hills at 5.5, 5.5, 4.5), rebinGrids onto [2,18) at step 6: "
                      "energy at 10.5 at step 7 is %r, the hills deposited give %r" % (en[9], exp_on), {"kind": "scenario", "scenario": txt})


def setup():
    V.extract_model("C05", EXTRACT, DRIVER, ["ocaml/fops.ml"])
    V.build_prog("c05sim", PROGS["c05sim"])


def corpus_cases():
    out = []
    p = os.path.join(V.ROOT, "corpus", "C05_scenarios.txt")
    if os.path.exists(p):
        for l in open(p):
            l = l.strip()
            if l and not l.startswith("#"):
                out.append(json.loads(l))
    for c in out:
        c["events"] = [tuple(e) if e[0] != "rebin" else ("rebin", [tuple(g) for g in e[1]]) for e in c["events"]]
    return out


def check(run):
    r = V.rng("C05")
    quick = run.tier == "quick"
    run.cov["rule"] = ("scenarios: 1-3 variables: exact distanceZ (non-periodic; periodic with a grid spanning the period, aligned with the "
                       "wrapping interval or not; periodic with a grid on part of the period; expandBoundaries; hard boundaries) with grids, "
                       "distanceVec / distanceDir without grids; hillWidth/gaussianSigmas, newHillFrequency 1-4, gridsUpdateFrequency default "
                       "or explicit, keepHills, wellTempered, stepZeroData, start step 0-9, run boundaries, state saves, restarts (state written, "
                       "fresh instance, state read; with keepHills also rebinGrids onto shifted/resized boundaries; with other hillWidth / "
                       "gaussianSigmas / hillWeight / newHillFrequency than the run that wrote the state), 8-30 steps with values on "
                       "bin edges / inside / outside the grid. distinct = scenario; non-trivial = >=3 hills deposited, >=1 projection (with "
                       "grids) and >=1 step outside the grid (where the grid does not span a period)")
    run.assumptions += [
        "theorems are about the R instance of the model; the tie runs the float instance; every discrete decision (schedule, bins, "
        "off-grid margin, kernel cut-off, expansion) is taken on dyadic inputs where it is exact, energies/forces/weights are compared "
        "to 1e-9 relative",
        "multiple replicas, ebMeta, quaternion variables, rebinning from the grids of the state (without keepHills) and "
        "loading a state into an instance that already holds hills are outside the model (the last one is replayed by a witness)",
        "values beyond a boundary declared hard, and values beyond a grid that covers part of the range of a periodic variable, are "
        "outside the premises of the theorems (the latter are generated and tied; the former are not generated)",
    ]
    st = V.standard_start(run, PROP, EXTRACT, DRIVER, PROGS)
    if st is None:
        return
    model, exes = st
    exe = exes["c05sim"]
    d = V.scratch("C05")
    cs = corpus_cases()
    cs += witnesses()
    n = 150 if quick else 4000
    cs += [gen_scn(r, k) for k in range(n)]
    cs += [gen_scn(r, "f%d" % k, REBIN_FOCUS) for k in range(20 if quick else 600)]
    cs += [gen_scn(r, "c%d" % k, RECONF_FOCUS) for k in range(25 if quick else 600)]
    cs += [gen_scn(r, "d%d" % k, dict(REBIN_FOCUS, p_reconf=0.45, p_restart=0.2)) for k in range(10 if quick else 300)]
    cs += [gen_scn(r, "e%d" % k, EB_FOCUS) for k in range(12 if quick else 300)]
    nsample = 0
    for (c, impl, mo, txt, rcv, o, traj, mline) in run_scenarios(run, exe, model, cs, d):
        check_one(run, c, impl, mo, txt, rcv, o, traj, mline)
        if nsample < 2 and impl:
            nsample += 1
            run.sample({"scenario": txt.split("\n")[:45], "last_step": {k: impl[-1].get(k) for k in ("it", "E", "F", "nhills", "nnew", "noff", "geom")}})
    reload_witness(run, exe, d)
    keep_witness(run, exe, d)
    replica_cases(run, exe, r, d, 8 if quick else 200, model)
    run.cov["correspondence"].update({"scenarios": len(cs)})


def replay(path):
    j = json.load(open(path))
    rp = j["replay"]
    print(json.dumps({k: v for k, v in j.items() if k != "replay"}, indent=1)[:3000])
    if rp.get("kind") == "scenario" or "scenario" in rp:
        exe = V.build_prog("c05sim", PROGS["c05sim"])
        model = V.extract_model("C05", EXTRACT, DRIVER, ["ocaml/fops.ml"])
        d = V.scratch("C05r")
        open(os.path.join(d, "r.scn"), "w").write(rp["scenario"])
        for fn, content in rp.get("files", {}).items():
            open(os.path.join(d, fn), "w").write(content)
        print("---- implementation")
        print(V.sh([exe, "r.scn"], cwd=d)[1])
        if "model_case" in rp:
            print("---- model")
            print("\n".join(V.run_lines(model, [rp["model_case"]])[1][0].replace(" || ", " | ").split(" | ")))
    return 0
