# C05: the metadynamics bias is the sum of the hills deposited on schedule.
# Tie: c05sim (engine simulator + dump of the private state of colvarbias_meta, built from VERIF_REPO)
# against the extracted MetaModel, on generated histories of exact distanceZ variables.
# Oracle: independent python re-summation of analytic hills deposited on the documented schedule.
import os, sys, json, math, re
from fractions import Fraction as Fr
import vcommon as V

PROP = "coq/C05/Properties_C05.v"
EXTRACT = "coq/C05/Extract_C05.v"
DRIVER = "props/C05/driver.ml"
PROGS = {"c05sim": ["props/C05/unit.cpp"]}
KB = 0.001987191


def ffloor(q):
    return q.numerator // q.denominator


def close(a, b, tol=1e-9):
    return abs(a - b) <= tol * max(1.0, abs(a), abs(b))


def wrap_exact(x, c, P):
    q = Fr(x)
    return float(q - ffloor((q - Fr(c)) / Fr(P) + Fr(1, 2)) * Fr(P))


# ------------------------------------------------------------------------------ generator
def gen_scn(r, k, forced=None):
    f = forced or {}
    nd = f.get("nd", r.choice([1, 1, 1, 2, 2, 3]))
    use_grids = f.get("use_grids", r.random() < 0.85)
    sig_mode = f.get("sig_mode", r.random() < 0.2)       # gaussianSigmas instead of hillWidth
    hw = f.get("hw", r.choice([1.0, 1.0, 1.5, 1.75, 2.0, 2.0, 2.5, 3.0]))
    vars_ = []
    for d in range(nd):
        v = {}
        v["w"] = r.choice([1.0, 0.5, 0.25, 2.0])
        v["nx"] = r.randint(3, 6) if nd == 3 else r.randint(4, 12)
        v["periodic"] = f.get("periodic", r.random() < 0.3)
        v["gper"] = False
        v["expand"] = False
        v["hlo"] = v["hup"] = False
        if v["periodic"]:
            if r.random() < 0.75:     # the grid spans the period and is aligned with the wrapping interval
                v["P"] = v["w"] * v["nx"]
                v["c"] = V.dyadic(r, -3, 3, bits=2)
                v["lower"] = v["c"] - v["P"] / 2
                v["gper"] = True
            else:                     # the grid covers a part of the period: a non-periodic grid on a periodic variable
                v["P"] = v["w"] * (v["nx"] + 2 * r.randint(3, 8))
                v["c"] = V.dyadic(r, -3, 3, bits=2)
                v["lower"] = v["c"] - v["w"] * v["nx"] / 2
        else:
            v["lower"] = V.dyadic(r, -4, 4, bits=3)
            if use_grids and r.random() < f.get("p_expand", 0.25):
                v["expand"] = True
            m = r.random()
            if m < 0.1:
                v["hlo"] = True
            elif m < 0.2:
                v["hup"] = True
        v["upper"] = v["lower"] + v["w"] * v["nx"]
        v["sigma"] = v["w"] * r.choice([0.5, 1.0, 1.5]) if sig_mode else v["w"] * hw / 2.0
        vars_.append(v)
    c = {"id": k, "vars": vars_, "use_grids": use_grids, "sig_mode": sig_mode, "hw": 0.0 if sig_mode else hw,
         "W": r.choice([0.125, 0.5, 1.0]), "freq": f.get("freq", r.choice([1, 1, 2, 2, 3, 4])),
         "keep": r.random() < 0.5, "wt": f.get("wt", r.random() < 0.35), "bt": r.choice([300.0, 1000.0, 3000.0]),
         "stepzero": r.random() < 0.25}
    c["gfreq_explicit"] = use_grids and f.get("gfreq_explicit", r.random() < 0.4)
    c["gfreq"] = f.get("gfreq", r.choice([1, 2, 3, 4, 6])) if c["gfreq_explicit"] else c["freq"]
    c["it0"] = r.randint(0, 9) if r.random() < 0.3 else 0
    nsteps = r.randint(8, 30)
    p_out = f.get("p_out", r.choice([0.0, 0.1, 0.25]))
    events = []
    prev = None
    for s in range(nsteps):
        zs = []
        for d, v in enumerate(vars_):
            span = v["w"] * v["nx"]
            m = r.random()
            if prev is not None and m < 0.45:        # stay close to the previous value (overlapping hills)
                z = prev[d] + r.randint(-12, 12) * v["w"] / 8
            elif m < 0.6:                            # exactly on a bin edge, boundaries included
                z = v["lower"] + r.randint(-1, v["nx"] + 1) * v["w"]
            elif m < 1.0 - p_out:                    # inside
                z = v["lower"] + r.randint(0, v["nx"] * 8 - 1) * v["w"] / 8 + v["w"] / 16
            else:                                    # outside, mostly close to an edge
                dist = r.randint(1, 24) * v["w"] / 8 if r.random() < 0.7 else r.randint(1, 12) * v["w"]
                z = (v["lower"] - dist) if r.random() < 0.5 else (v["upper"] + dist)
            if v["hlo"]:
                z = max(z, v["lower"] + v["w"] / 16)
            if v["hup"]:
                z = min(z, v["upper"] - v["w"] / 16)
            if v["periodic"] and r.random() < 0.3:
                z += r.randint(-2, 2) * v["P"]
            zs.append(z)
        prev = [wrap_exact(z, v["c"], v["P"]) if v["periodic"] else z for z, v in zip(zs, vars_)]
        boundary = (s > 0) and r.random() < 0.1
        events.append((boundary, zs))
    c["events"] = events
    return c


def steps_of(c):
    """(it, rel, cont, x) per event, as the engine simulator produces them"""
    out = []
    it = c["it0"]
    for n, (boundary, zs) in enumerate(c["events"]):
        if n > 0 and not boundary:
            it += 1
        x = [wrap_exact(z, v["c"], v["P"]) if v["periodic"] else z for z, v in zip(zs, c["vars"])]
        out.append((it, it - c["it0"], bool(boundary), x))
    return out


def scenario_text(c, dump=True):
    L = ["natoms %d" % len(c["vars"]), "new"]
    if c["it0"]:
        L.append("setstep %d" % c["it0"])
    L.append("config EOF")
    for d, v in enumerate(c["vars"]):
        L += ["colvar {", "  name v%d" % d, "  lowerBoundary %r" % v["lower"], "  upperBoundary %r" % v["upper"],
              "  width %r" % v["w"]]
        if v["expand"]:
            L.append("  expandBoundaries on")
        if v["hlo"]:
            L.append("  hardLowerBoundary on")
        if v["hup"]:
            L.append("  hardUpperBoundary on")
        L += ["  distanceZ {", "    main { atomNumbers %d }" % (d + 1), "    ref { dummyAtom (0,0,0) }", "    axis (0,0,1)"]
        if v["periodic"]:
            L += ["    period %r" % v["P"], "    wrapAround %r" % v["c"]]
        L += ["  }", "}"]
    L += ["metadynamics {", "  name m", "  colvars " + " ".join("v%d" % d for d in range(len(c["vars"]))),
          "  hillWeight %r" % c["W"], "  newHillFrequency %d" % c["freq"], "  writeHillsTrajectory on"]
    if c["sig_mode"]:
        L.append("  gaussianSigmas " + " ".join("%r" % v["sigma"] for v in c["vars"]))
    else:
        L.append("  hillWidth %r" % c["hw"])
    if not c["use_grids"]:
        L.append("  useGrids off")
    else:
        L.append("  writeFreeEnergyFile off")
        if c["gfreq_explicit"]:
            L.append("  gridsUpdateFrequency %d" % c["gfreq"])
        if c["keep"]:
            L.append("  keepHills on")
    if c["wt"]:
        L += ["  wellTempered on", "  biasTemperature %r" % c["bt"]]
    if c["stepzero"]:
        L.append("  stepZeroData on")
    L += ["}", "EOF", "show atomf 0 energy 0 af 1 bias 1"]
    for boundary, zs in c["events"]:
        for d, z in enumerate(zs):
            L.append("pos %d 0 0 %s" % (d + 1, V.hexf(z)))
        if boundary:
            L.append("runboundary")
        L.append("step")
        L.append("metadump m %d" % (1 if dump else 0))
    L.append("metatraj m")
    return "\n".join(L) + "\n"


def model_case(c, dump=True):
    p = ["META", str(len(c["vars"]))]
    for v in c["vars"]:
        p += ["1" if v["periodic"] else "0", V.hexf(v.get("P", 1.0)), V.hexf(v["sigma"]), V.hexf(v["w"]),
              "1" if v["gper"] else "0", "1" if v["expand"] else "0", "1" if v["hlo"] else "0", "1" if v["hup"] else "0",
              V.hexf(v["lower"]), V.hexf(v["upper"]), str(v["nx"])]
    p += [V.hexf(c["W"]), V.hexf(c["hw"]), str(c["freq"]), str(c["gfreq"]), "1" if c["use_grids"] else "0",
          "1" if (c["keep"] and c["use_grids"]) else "0", "1" if c["wt"] else "0", V.hexf(c["bt"]), V.hexf(KB),
          "1" if c["stepzero"] else "0", "1" if dump else "0"]
    st = steps_of(c)
    p.append(str(len(st)))
    for it, rel, cont, x in st:
        p += [str(it), str(rel), "1" if cont else "0"] + [V.hexf(t) for t in x]
    return " ".join(p)


# ------------------------------------------------------------------------------ parsing
def fh(t):
    try:
        return float.fromhex(t)
    except ValueError:      # output cut short by a crash of the implementation
        return float("nan")


def parse_hills(tokens, nd):
    hs = []
    for a in range(0, len(tokens), nd + 2):
        hs.append((int(tokens[a]), fh(tokens[a + 1]), [fh(t) for t in tokens[a + 2:a + 2 + nd]]))
    return hs


def parse_traj(text, nd):
    """lines of the buffered hills trajectory: step, centres, sigmas, weight (one per add_hill, in order)"""
    out = []
    for line in text.split("\n"):
        w = line.split()
        if len(w) == 3 + 2 * nd and w[0] == "TRAJ":
            out.append((int(w[1]), float(w[-1]), [float(t) for t in w[2:2 + nd]]))
    return out if "TRAJEND" in text else None


def parse_impl(text, nd):
    steps = []
    cur = None
    for line in text.split("\n"):
        w = line.split()
        if not w or w[0] in ("TRAJ", "TRAJEND"):
            continue
        if w[0] == "STEP":
            cur = {"it": int(w[1]), "err": w[2] if len(w) > 2 else "", "cv": [], "af": [], "hills": [], "off": [],
                   "geom": None, "egrid": None, "ggrid": None}
            steps.append(cur)
        elif cur is None:
            continue
        elif w[0] == "CV":
            cur["cv"].append(fh(w[2]))
        elif w[0] == "AF":
            cur["af"].append(fh(w[2]))
        elif w[0] == "BIAS":
            cur["bias"] = fh(w[2])
        elif w[0] == "META":
            if w[1] == "none":
                cur["nometa"] = True
            else:
                kv = dict(t.split("=") for t in w[1:])
                cur["nhills"], cur["nnew"], cur["noff"] = int(kv["nhills"]), int(kv["nnew"]), int(kv["noff"])
        elif w[0] == "MENERGY":
            cur["E"] = fh(w[1])
        elif w[0] == "MFORCE":
            cur["F"] = [fh(t) for t in w[1:]]
        elif w[0] == "HILL":
            cur["hills"] += parse_hills(w[1:], nd)
        elif w[0] == "OFF":
            cur["off"] += parse_hills(w[1:], nd)
        elif w[0] == "GEOM":
            cur["geom"] = [(int(w[1 + 5 * d]), fh(w[2 + 5 * d]), fh(w[3 + 5 * d])) for d in range(nd)]
            cur["gw"] = [fh(w[4 + 5 * d]) for d in range(nd)]
            cur["gper"] = [int(w[5 + 5 * d]) for d in range(nd)]
        elif w[0] == "EGRID":
            cur["egrid"] = [fh(t) for t in w[1:]]
        elif w[0] == "GGRID":
            cur["ggrid"] = [fh(t) for t in w[1:]]
    return steps


def parse_model(line, nd):
    steps = []
    for rec in line.split(" | "):
        fs = [f.split() for f in rec.split(" ; ")]
        if not fs or not fs[0] or fs[0][0] != "S":
            return None
        s = {"ub": fs[0][1] == "1", "E": fh(fs[0][2]), "F": [fh(t) for t in fs[0][3:]], "geom": None, "egrid": None, "ggrid": None}
        for f in fs[1:]:
            if f[0] == "H":
                nold, nnew = int(f[1]), int(f[2])
                s["nhills"], s["nnew"] = nold + nnew, nnew
                s["hills"] = parse_hills(f[3:], nd)
            elif f[0] == "O":
                s["off"] = parse_hills(f[1:], nd)
                s["noff"] = len(s["off"])
            elif f[0] == "G":
                s["geom"] = [(int(f[1 + 3 * d]), fh(f[2 + 3 * d]), fh(f[3 + 3 * d])) for d in range(nd)]
            elif f[0] == "E":
                s["egrid"] = [fh(t) for t in f[1:]]
            elif f[0] == "D":
                s["ggrid"] = [fh(t) for t in f[1:]]
        steps.append(s)
    return steps


def hills_close(a, b):
    if len(a) != len(b):
        return False
    for (i1, w1, c1), (i2, w2, c2) in zip(a, b):
        if i1 != i2 or c1 != c2 or not close(w1, w2):
            return False
    return True


def vec_close(a, b):
    return a is not None and b is not None and len(a) == len(b) and all(close(p, q) for p, q in zip(a, b))


def compare_step(c, im, mo):
    """first differing component between implementation and model at one step, or None"""
    if not close(im["E"], mo["E"]):
        return "energy"
    if not vec_close(im["F"], mo["F"]):
        return "force"
    if (im["nhills"], im["nnew"]) != (mo["nhills"], mo["nnew"]) or not hills_close(im["hills"], mo["hills"]):
        return "hills"
    if im["noff"] != mo["noff"] or not hills_close(im["off"], mo["off"]):
        return "off_grid_list"
    if c["use_grids"]:
        if im["geom"] != mo["geom"]:
            return "geometry"
        if mo["egrid"] is not None:
            if not vec_close(im["egrid"], mo["egrid"]):
                return "energy_grid"
            if not vec_close(im["ggrid"], mo["ggrid"]):
                return "gradient_grid"
    return None


# ------------------------------------------------------------------------------ oracle (implementation alone)
def pdiff(v, x, ctr):
    d = x - ctr
    if v["periodic"]:
        d = float(Fr(d) - ffloor(Fr(d) / Fr(v["P"]) + Fr(1, 2)) * Fr(v["P"]))
    return d


def kern(c, x, h):
    q = 0.0
    for v, xi, ci in zip(c["vars"], x, h[2]):
        q += pdiff(v, xi, ci) ** 2 / (v["sigma"] * v["sigma"])
    return 0.0 if q > 23.0 else math.exp(-0.5 * q)


def esum(c, x, hs):
    return sum(h[1] * kern(c, x, h) for h in hs)


def fsum(c, x, hs, i):
    v = c["vars"][i]
    return sum(h[1] * kern(c, x, h) * pdiff(v, x[i], h[2][i]) / (v["sigma"] * v["sigma"]) for h in hs)


def bins_exact(c, geom, x):
    return [ffloor((Fr(xi) - Fr(g[1])) / Fr(v["w"])) for v, g, xi in zip(c["vars"], geom, x)]


def spec_bias(c, geom, x, tab, pend):
    """the bias the property prescribes at x: (energy, forces, inside?)"""
    nd = len(c["vars"])
    if c["use_grids"]:
        b = bins_exact(c, geom, x)
        if all(0 <= bi < g[0] for bi, g in zip(b, geom)):
            ctr = [g[1] + v["w"] * (0.5 + bi) for v, g, bi in zip(c["vars"], geom, b)]
            return (esum(c, ctr, tab) + esum(c, x, pend),
                    [fsum(c, ctr, tab, i) + fsum(c, x, pend, i) for i in range(nd)], True)
    allh = tab + pend
    return esum(c, x, allh), [fsum(c, x, allh, i) for i in range(nd)], False


def oracle(c, impl, traj):
    """walk the history; return (signature, text, step index) of the first departure of the implementation
    from the property, or None.  Also returns facts about the scenario for the evidence."""
    st = steps_of(c)
    tab, pend = [], []
    facts = {"deposits": 0, "projections": 0, "outside_steps": 0, "expansions": 0}
    nd = len(c["vars"])
    geom0 = [(v["nx"], v["lower"], v["upper"]) for v in c["vars"]]
    prev_geom = geom0
    traj = list(traj)
    for n, ((it, rel, cont, x), im) in enumerate(zip(st, impl)):
        if im["it"] != it or im["cv"] != x:
            return ("harness:history", "step %d: imposed (it=%d, x=%s) but the module saw (it=%d, x=%s)" % (n, it, x, im["it"], im["cv"]), n), facts
        geom = im["geom"] if c["use_grids"] else geom0
        if c["use_grids"]:
            # the grid may only grow, by whole bins, on the same lattice
            for v, g, pg in zip(c["vars"], geom, prev_geom):
                if g != pg:
                    facts["expansions"] += 1
                    kl = (Fr(pg[1]) - Fr(g[1])) / Fr(v["w"])
                    ku = (Fr(g[2]) - Fr(pg[2])) / Fr(v["w"])
                    if kl.denominator != 1 or ku.denominator != 1 or kl < 0 or ku < 0 or g[0] != pg[0] + kl + ku or not v["expand"]:
                        return ("expand:lattice", "step %d: grid of variable changed from %s to %s: not an expansion by whole bins" % (n, pg, g), n), facts
            prev_geom = geom
        deposit = (it % c["freq"] == 0) and ((rel > 0 and not cont) or c["stepzero"])
        if deposit:
            facts["deposits"] += 1
            wgt = c["W"]
            pend_before = list(pend)
            if c["wt"]:
                vhere, _, ins = spec_bias(c, geom, x, tab, pend)
                wgt = c["W"] * math.exp(-vhere / (c["bt"] * KB))
            h = (it, wgt, list(x))
            # the hill actually added at this step (hills trajectory buffer, 14 significant digits)
            if not traj or traj[0][0] != it or not all(close(a, b, 1e-12) for a, b in zip(traj[0][2], x)):
                return ("schedule:missing-hill", "step %d (it=%d, relative %d%s): the schedule prescribes a hill at %s; the next hill "
                        "added by the module is %s" % (n, it, rel, ", repeated step" if cont else "", x, traj[0] if traj else None), n), facts
            seen = [traj.pop(0)]
            if not close(seen[-1][1], wgt):
                if c["wt"] and c["use_grids"] and not ins:
                    sig = "wt:deposit-outside-grid-reads-out-of-range"
                elif c["wt"] and c["use_grids"] and pend_before and esum(c, x, pend_before) != 0.0:
                    sig = "wt:ignores-unprojected-hills"
                elif c["wt"] and c["use_grids"] and any(v["expand"] for v in c["vars"]) and geom != geom0:
                    sig = "expand:bins-added-by-expansion-miss-earlier-hills"
                else:
                    sig = "schedule:hill-weight"
                return (sig, "step %d (it=%d): hill deposited at %s has weight %r, the property prescribes %r "
                        "(hillWeight %r%s)" % (n, it, x, seen[-1][1], wgt, c["W"],
                                               ", times exp(-V/kT) with V the bias at that point" if c["wt"] else ""), n), facts
            if c["wt"] and c["use_grids"] and not ins:
                # the implementation read hills_energy->value(curr_bin) with an index outside the grid; whatever
                # it read is not reproducible: stop following this scenario
                facts["wt_outside"] = True
                return None, facts
            pend.append(h)
        elif traj and traj[0][0] == it and (n + 1 == len(st) or st[n + 1][0] != it):
            return ("schedule:extra-hill", "step %d (it=%d, relative %d%s): the module added the hill %s at a step that is not "
                    "eligible (newHillFrequency %d)" % (n, it, rel, ", repeated step" if cont else "", traj[0], c["freq"]), n), facts
        if c["use_grids"] and it % c["gfreq"] == 0:
            if pend:
                facts["projections"] += 1
            tab += pend
            pend = []
        # which hills must still be listed explicitly
        if c["use_grids"]:
            explicit = (tab + pend) if c["keep"] else pend
        else:
            explicit = tab + pend
        if not hills_close(im["hills"], explicit):
            return ("schedule:hill-list", "step %d (it=%d): explicit hills are %s, the schedule prescribes %s" % (
                n, it, [(h[0], h[2]) for h in im["hills"]], [(h[0], h[2]) for h in explicit]), n), facts
        eE, eF, ins = spec_bias(c, geom, x, tab, pend)
        if not ins and c["use_grids"]:
            facts["outside_steps"] += 1
        if not close(im["E"], eE) or not vec_close(im["F"], eF):
            what = "energy %r force %s, sum of the deposited hills gives energy %r force %s" % (im["E"], im["F"], eE, eF)
            if c["use_grids"] and not ins:
                eo = esum(c, x, im["off"]) + esum(c, x, pend)
                dbl = [h for h in pend if any(g[0] == h[0] and g[2] == h[2] for g in im["off"])]
                if close(im["E"], eo) and dbl and esum(c, x, dbl) != 0.0 and close(im["E"] - esum(c, x, dbl), eE):
                    sig = "outside-grid:unprojected-hill-counted-twice"
                elif close(im["E"], eo):
                    sig = "outside-grid:hills-far-from-edges-dropped"
                else:
                    sig = "outside-grid:energy"
            elif c["use_grids"] and any(v["expand"] for v in c["vars"]) and geom != geom0:
                sig = "expand:bins-added-by-expansion-miss-earlier-hills"
            else:
                sig = "energy" if not close(im["E"], eE) else "force"
            return (sig, "step %d (it=%d, x=%s, %s the grid): %s" % (n, it, x, "inside" if ins else "outside", what), n), facts
        if im.get("bias") != im["E"] or im["af"] != im["F"]:
            return ("applied:bias-output", "step %d: bias energy/applied force reported by the module (%r, %s) differ from "
                    "the bias's own (%r, %s)" % (n, im.get("bias"), im["af"], im["E"], im["F"]), n), facts
    return None, facts


# ------------------------------------------------------------------------------ findings replayed on every run
def _var(lower=0.0, nx=8, w=1.0, sigma=1.0, expand=False):
    return {"w": w, "nx": nx, "periodic": False, "gper": False, "expand": expand, "hlo": False, "hup": False,
            "lower": lower, "upper": lower + w * nx, "sigma": sigma}


def _cfg(cid, vars_, events, **kw):
    c = {"id": cid, "vars": vars_, "use_grids": True, "sig_mode": False, "hw": 2.0, "W": 1.0, "freq": 1,
         "keep": False, "wt": False, "bt": 300.0, "stepzero": False, "gfreq_explicit": False, "gfreq": 1, "it0": 0,
         "events": [(False, list(z)) for z in events]}
    c.update(kw)
    if not c["gfreq_explicit"]:
        c["gfreq"] = c["freq"]
    return c


def witnesses():
    """fixed scenarios replayed on every run: the witnesses of the _refuted theorems and one per finding"""
    return [
        # C05_outside_grid_refuted (w_cfg, [w_i1], w_i2 preceded by two idle steps): gaussianSigmas = 1 bin, one hill
        # 1.5 bins inside the lower edge at step 2, then a quarter of a bin outside at step 3
        _cfg("w_outside", [_var()], [[1.5], [1.5], [1.5], [-0.25]], sig_mode=True, hw=0.0, freq=2),
        # C05_wt_deposit_outside_grid_refuted, in two dimensions where the out-of-range index (3,-1) has the
        # address of bin (2,7): the hill at step 2 gets the full hillWeight although it sits on the hill of step 1
        _cfg("w_wt_outside", [_var(), _var()], [[3.5, 0.5], [3.5, 0.5], [3.5, -0.25]], wt=True),
        # the u_cfg witness itself (one variable; what is read at data[-1] is whatever precedes the array)
        _cfg("w_wt_outside_1d", [_var()], [[0.5], [0.5], [-0.25]], wt=True),
        # well-tempered, gridsUpdateFrequency 2 > newHillFrequency 1: at step 2 the hill of step 1 is not yet
        # on the grid and is ignored by the well-tempered factor
        _cfg("w_wt_unprojected", [_var()], [[3.5], [3.5], [3.5]], wt=True, gfreq_explicit=True, gfreq=2),
        # a hill deposited outside the grid and not yet projected is in hills_off_grid and after new_hills_begin
        _cfg("w_double_count", [_var()], [[3.5], [-0.25]], gfreq_explicit=True, gfreq=2),
        # expandBoundaries with gaussianSigmas (buffer of one bin): the bin added at step 2 never receives the hill of step 1
        _cfg("w_expand", [_var(expand=True)], [[1.5], [1.5], [0.5], [-0.5]], sig_mode=True, hw=0.0),
    ]


def run_scenarios(run, exe, model, cs, d, dump=True):
    """run implementation and model on the scenarios; yields (c, impl_steps, model_steps, scenario text)"""
    mlines = [model_case(c, dump) for c in cs]
    rc, mout, e = V.run_lines(model, mlines, timeout=900)
    res = []
    for k, c in enumerate(cs):
        sc = os.path.join(d, "s%s.scn" % c["id"])
        txt = scenario_text(c, dump)
        open(sc, "w").write(txt)
        rcv, o, ev = V.sh([exe, sc], cwd=d, timeout=120)
        os.remove(sc)
        nd = len(c["vars"])
        try:
            impl = parse_impl(o, nd) if "CONFIG err=ok" in o else None
        except (ValueError, IndexError, KeyError):
            impl = []
        mo = parse_model(mout[k], nd) if k < len(mout) else None
        res.append((c, impl, mo, txt, rcv, o, parse_traj(o, nd)))
    return res


def check_one(run, c, impl, mo, txt, rcv, o, traj):
    nd = len(c["vars"])
    key = "s%s" % c["id"]
    replay_d = {"kind": "scenario", "scenario": txt, "model_case": model_case(c), "config": {k: v for k, v in c.items() if k != "events"}}
    if impl is None:
        run.count(key, False)
        run.mismatch("config", {"scenario": txt}, o[-400:], "accepted")
        return
    if rcv != 0 or traj is None or len(impl) != len(c["events"]) or any("E" not in s for s in impl):
        run.count(key, False)
        run.violation("crash", "the module died or lost the bias (rc=%d) after %d of %d steps" % (rcv, len(impl), len(c["events"])), replay_d)
        return
    bad, facts = oracle(c, impl, traj)
    nontriv = facts["deposits"] >= 3 and (facts["projections"] >= 1 or not c["use_grids"]) and \
        (facts["outside_steps"] >= 1 or not c["use_grids"] or all(v["gper"] for v in c["vars"]))
    run.count(key, nontriv)
    run.dist("nd=%d" % nd)
    run.dist("grids" if c["use_grids"] else "nogrids")
    for kk in ("wt", "keep", "sig_mode", "stepzero", "gfreq_explicit"):
        if c[kk]:
            run.dist(kk)
    run.dist("periodic_vars", sum(1 for v in c["vars"] if v["periodic"]))
    run.dist("expanding_vars", sum(1 for v in c["vars"] if v["expand"]))
    run.dist("steps", len(impl))
    for kk in ("deposits", "projections", "outside_steps", "expansions"):
        run.dist(kk, facts[kk])
    if bad:
        sig, text, n = bad
        run.dist("oracle:" + sig)
        run.violation(sig, text, dict(replay_d, step=n))
    # tie
    if mo is None or len(mo) != len(impl):
        run.mismatch("model-output", {"model_case": model_case(c)}, len(impl), None if mo is None else len(mo))
        return
    for n, (im, ms) in enumerate(zip(impl, mo)):
        if ms["ub"]:
            run.dist("model:out-of-range-read")
            break
        diff = compare_step(c, im, ms)
        if diff:
            run.mismatch(diff, dict(replay_d, step=n),
                         {k: im.get(k) for k in ("E", "F", "nhills", "nnew", "noff", "hills", "off", "geom")},
                         {k: ms.get(k) for k in ("E", "F", "nhills", "nnew", "noff", "hills", "off", "geom")})
            break


def setup():
    V.extract_model("C05", EXTRACT, DRIVER, ["ocaml/fops.ml"])
    V.build_prog("c05sim", PROGS["c05sim"])


def corpus_cases():
    out = []
    p = os.path.join(V.ROOT, "corpus", "C05_scenarios.txt")
    if os.path.exists(p):
        for l in open(p):
            l = l.strip()
            if l and not l.startswith("#"):
                out.append(json.loads(l))
    for c in out:
        c["events"] = [(bool(b), z) for b, z in c["events"]]
    return out


def check(run):
    r = V.rng("C05")
    quick = run.tier == "quick"
    run.cov["rule"] = ("scenarios: 1-3 exact distanceZ variables (periodic with aligned or partial grids, non-periodic, expandBoundaries, "
                       "hard boundaries), hillWidth/gaussianSigmas, newHillFrequency 1-4, gridsUpdateFrequency default or explicit, "
                       "keepHills, wellTempered, stepZeroData, useGrids off, start step 0-9, run boundaries, 8-30 steps with values "
                       "on bin edges / inside / outside the grid. distinct = scenario; non-trivial = >=3 hills deposited, >=1 projection "
                       "(with grids) and >=1 step outside the grid (where the grid does not span a period)")
    run.assumptions += [
        "theorems are about the R instance of the model; the tie runs the float instance; every discrete decision (schedule, bins, "
        "off-grid margin, kernel cut-off, expansion) is taken on dyadic inputs where it is exact, energies/forces/weights are compared "
        "to 1e-9 relative",
        "non-scalar variables (useGrids off), multiple replicas and ebMeta are outside the model",
        "once the model records an out-of-range grid read (well-tempered deposit outside the grid) the rest of that scenario is not compared",
    ]
    st = V.standard_start(run, PROP, EXTRACT, DRIVER, PROGS)
    if st is None:
        return
    model, exes = st
    exe = exes["c05sim"]
    d = V.scratch("C05")
    cs = corpus_cases()
    cs += witnesses()
    n = 160 if quick else 4000
    cs += [gen_scn(r, k) for k in range(n)]
    nsample = 0
    for (c, impl, mo, txt, rcv, o, traj) in run_scenarios(run, exe, model, cs, d):
        check_one(run, c, impl, mo, txt, rcv, o, traj)
        if nsample < 2 and impl:
            nsample += 1
            run.sample({"scenario": txt.split("\n")[:45], "last_step": {k: impl[-1].get(k) for k in ("it", "E", "F", "nhills", "nnew", "noff", "geom")}})
    run.cov["correspondence"].update({"scenarios": len(cs)})


def replay(path):
    j = json.load(open(path))
    rp = j["replay"]
    print(json.dumps({k: v for k, v in j.items() if k != "replay"}, indent=1)[:3000])
    if rp.get("kind") == "scenario" or "scenario" in rp:
        exe = V.build_prog("c05sim", PROGS["c05sim"])
        model = V.extract_model("C05", EXTRACT, DRIVER, ["ocaml/fops.ml"])
        d = V.scratch("C05r")
        open(os.path.join(d, "r.scn"), "w").write(rp["scenario"])
        print("---- implementation")
        print(V.sh([exe, "r.scn"], cwd=d)[1])
        if "model_case" in rp:
            print("---- model")
            print("\n".join(V.run_lines(model, [rp["model_case"]])[1][0].split(" | ")))
    return 0
