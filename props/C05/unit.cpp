// c05sim: the engine simulator plus a command that prints the internal state of a metadynamics
// bias (hill list, new_hills_begin, hills_off_grid, grid geometry, energy and gradient grids,
// per-variable bias force) in hex floats.  Private members are read through the
// `#define private public` device (no hook in /repo).
#include <cstdio>
#include <cstdlib>
#include <cstring>
#include <cmath>
#include <iostream>
#include <fstream>
#include <sstream>
#include <iomanip>
#include <string>
#include <vector>
#include <list>
#include <map>
#include <set>
#include <unordered_map>
#include <memory>
#include <algorithm>
#include <functional>
#include <thread>
#include <mutex>
#include <iosfwd>
#include <limits>
#include <typeinfo>
#include <stdexcept>

#define private public
#define protected public
#include "colvarmodule.h"
#include "colvar.h"
#include "colvarbias.h"
#include "colvargrid.h"
#include "colvarbias_meta.h"
#include "vsim.h"
#undef private
#undef protected

struct c05_session : public vsim_session {
  c05_session(std::ostream *o) : vsim_session(o) {}

  void print_hill(char const *tag, colvarbias_meta::hill &h)
  {
    std::ostream &o = *out;
    o << tag << " " << h.it << " " << vs_hex(h.W);
    for (size_t i = 0; i < h.centers.size(); i++) o << " " << vs_hex(h.centers[i]);   // all components
    for (size_t i = 0; i < h.sigmas.size(); i++) o << " " << vs_hex(h.sigmas[i]);     // the widths stored in the hill
    o << "\n";
  }

  // metadump <bias> <grids 0|1>
  bool exec_extra(std::string const &cmd, std::vector<std::string> const &a, std::istream &) override
  {
    if (cmd != "metadump" && cmd != "metatraj" && cmd != "metatarget" && cmd != "metapmf") return false;
    std::ostream &o = *out;
    colvarbias *b0 = cvm::bias_by_name(a[0]);
    colvarbias_meta *b = dynamic_cast<colvarbias_meta *>(b0);
    if (!b) { o << "META none\n"; return true; }
    if (cmd == "metapmf") {
      // write the free-energy file (write_pmf) and print its name and the values read back from it
      b->write_pmf();
      std::string const fname = b->output_prefix +
        (b->dump_fes_save ? "." + cvm::to_str(cvm::step_absolute()) : "") + ".pmf";
      o << "PMFFILE " << fname << "\n";
      std::ifstream f(fname.c_str());
      std::string l;
      o << "PMF";
      while (std::getline(f, l)) {
        if (l.empty() || l[0] == '#') continue;
        std::istringstream is(l);
        double v = 0.0, last = 0.0; size_t nv = 0;
        while (is >> v) { last = v; nv++; }
        if (nv > 0) o << " " << vs_hex(last);
      }
      o << "\n";
      return true;
    }
    if (cmd == "metatarget") {
      // ebMeta: the target distribution as used (after the normalisation done at initialisation)
      o << "TARGET";
      if (b->ebmeta && b->target_dist) {
        for (size_t k = 0; k < b->target_dist->data.size(); k++) o << " " << vs_hex(b->target_dist->data[k]);
      }
      o << "\n";
      return true;
    }
    if (cmd == "metatraj") {
      // the buffered hills trajectory (writeHillsTrajectory on): one line per add_hill, in order
      std::istringstream is(b->hills_traj_os_buf.str());
      std::string l;
      while (std::getline(is, l)) o << "TRAJ " << l << "\n";
      o << "TRAJEND\n";
      return true;
    }
    bool want_grids = a.size() > 1 && atoi(a[1].c_str()) != 0;
    size_t nnew = 0;
    for (colvarbias_meta::hill_iter h = b->new_hills_begin; h != b->hills.end(); h++) nnew++;
    // hills_off_grid from new_hills_off_grid_begin on (found by position: never dereferenced)
    size_t noffnew = 0, pos = 0;
    bool seen = false;
    for (colvarbias_meta::hill_iter h = b->hills_off_grid.begin(); h != b->hills_off_grid.end(); h++, pos++) {
      if (h == b->new_hills_off_grid_begin) { seen = true; noffnew = b->hills_off_grid.size() - pos; break; }
    }
    (void) seen;
    o << "META nhills=" << b->hills.size() << " nnew=" << nnew << " noff=" << b->hills_off_grid.size()
      << " noffnew=" << noffnew << "\n";
    o << "MENERGY " << vs_hex(b->bias_energy) << "\n";
    o << "MFORCE";
    for (size_t i = 0; i < b->colvar_forces.size(); i++) o << " " << vs_hex(b->colvar_forces[i]);   // all components
    o << "\n";
    for (colvarbias_meta::hill &h : b->hills) print_hill("HILL", h);
    for (colvarbias_meta::hill &h : b->hills_off_grid) print_hill("OFF", h);
    if (b->use_grids && b->hills_energy) {
      colvar_grid_scalar *he = b->hills_energy.get();
      colvar_grid_gradient *hg = b->hills_energy_gradients.get();
      o << "GEOM";
      for (size_t i = 0; i < he->nd; i++)
        o << " " << he->nx[i] << " " << vs_hex(he->lower_boundaries[i].real_value) << " "
          << vs_hex(he->upper_boundaries[i].real_value) << " " << vs_hex(he->widths[i]) << " " << (he->periodic[i] ? 1 : 0);
      o << "\n";
      if (want_grids) {
        o << "EGRID";
        for (size_t k = 0; k < he->data.size(); k++) o << " " << vs_hex(he->data[k]);
        o << "\n";
        o << "GGRID";
        for (size_t k = 0; k < hg->data.size(); k++) o << " " << vs_hex(hg->data[k]);
        o << "\n";
      }
    }
    return true;
  }
};

int main(int argc, char **argv)
{
  c05_session s(&std::cout);
  if (argc > 1 && std::string(argv[1]) != "-") {
    std::ifstream f(argv[1]);
    if (!f) { std::cerr << "cannot open " << argv[1] << "\n"; return 2; }
    s.run(f);
  } else {
    s.run(std::cin);
  }
  std::cout.flush();
  return 0;
}
