# C15, second half: grid files.  The real writers/readers of colvar_grid (through props/C15/unit.cpp) and the
# extracted model (props/C15/driver.ml) are run on the same grids; token streams and parsed-back grids are compared,
# and a round-trip oracle on the implementation alone supplies the failing input.
import re
import vcommon as V

KEYS = ("grid_parameters", "n_colvars", "lower_boundaries", "upper_boundaries", "widths", "sizes")
INT_RE = re.compile(r"^[+-]?\d+$")


def lex(text):
    """text of a grid file -> token words of the model (numbers keep their parsed value)"""
    out = []
    lines = text.split("\n")
    last_unterminated = lines[-1] != ""
    if not last_unterminated:
        lines = lines[:-1]
    for k, line in enumerate(lines):
        for w in line.split():
            if w == "#":
                out.append("#")
            elif w in ("{", "}"):
                out.append(w)
            elif w in KEYS:
                out.append("K:" + w)
            elif INT_RE.match(w):
                out.append("I:%d" % int(w))
            else:
                try:
                    out.append("N:" + float(w).hex())
                except ValueError:
                    out.append("B")
        if not (last_unterminated and k == len(lines) - 1):
            out.append("NL")
    return out


def num_of(tok):
    if tok.startswith("N:"):
        return float.fromhex(tok[2:])
    if tok.startswith("I:"):
        return float(int(tok[2:]))
    return None


def close(a, b, tol):
    return a == b or abs(a - b) <= tol * max(abs(a), abs(b)) + 1e-300


def toks_differ(model, impl, tol):
    """None when the streams agree (structure exact, numbers within tol), else a description"""
    if len(model) != len(impl):
        return "token count %d (model) vs %d (file)" % (len(model), len(impl))
    for k, (m, i) in enumerate(zip(model, impl)):
        if m.startswith("N:"):
            x = num_of(i)
            if x is None or not close(float.fromhex(m[2:]), x, tol):
                return "token %d: model %s file %s" % (k, m, i)
        elif m != i:
            return "token %d: model %s file %s" % (k, m, i)
    return None


def parse_grid(line):
    """'G mult nd nx.. L n .. U n .. W n .. P n .. D n ..' -> dict, or None for ERR"""
    w = line.split()
    if not w or w[0] != "G":
        return None
    g = {"mult": int(w[1]), "nd": int(w[2])}
    p = 3
    nx = []
    while w[p] != "L":
        nx.append(int(w[p])); p += 1
    g["nx"] = nx
    for tag, key in (("L", "lower"), ("U", "upper"), ("W", "width"), ("P", "per"), ("D", "data")):
        assert w[p] == tag, line[:200]
        n = int(w[p + 1]); p += 2
        vals = w[p:p + n]; p += n
        g[key] = [int(v) for v in vals] if key == "per" else [float.fromhex(v) for v in vals]
    if p < len(w) and w[p] == "E":      # behaviour one bin past each edge (restart-form reads)
        n = int(w[p + 1])
        g["edge"] = [int(v) for v in w[p + 2:p + 2 + n]]
    return g


def grids_differ(a, b, tol, keys=("mult", "nx", "lower", "upper", "width", "per", "data")):
    if (a is None) != (b is None):
        return "one side rejects: %s vs %s" % ("ERR" if a is None else "grid", "ERR" if b is None else "grid")
    if a is None:
        return None
    for k in keys:
        x, y = a[k], b[k]
        if k in ("mult",):
            if x != y:
                return "%s: %s vs %s" % (k, x, y)
        elif k in ("nx", "per"):
            if list(x) != list(y):
                return "%s: %s vs %s" % (k, x, y)
        else:
            # sums of rounded decimal values (add = true): the error is relative to the operands, not to the sum
            sc = b.get("_scale", {}).get(k) if isinstance(b, dict) else None
            if len(x) != len(y) or any(not (close(u, v, tol) or (sc is not None and abs(u - v) <= tol * sc[i_]))
                                       for i_, (u, v) in enumerate(zip(x, y))):
                return "%s: %s vs %s" % (k, x[:8], y[:8])
    if "edge" in a and "edge" in b and a["edge"] != b["edge"]:
        return "per: one bin past the edges (wrapped index, -9 = outside): %s vs %s" % (a["edge"], b["edge"])
    return None


def spec(g):
    h = V.hexf
    return " ".join([str(g["mult"]), str(g["nd"])] + [str(n) for n in g["nx"]] + [h(x) for x in g["lower"]] +
                    [h(x) for x in g["upper"]] + [h(x) for x in g["width"]] + [str(p) for p in g["per"]] +
                    [str(len(g["data"]))] + [h(x) for x in g["data"]])


def sspec(mult, cvs, geo, data):
    """restart form: per variable (cvLower cvUpper cvWidth period), per dimension of the grid (lower upper width), data"""
    h = V.hexf
    parts = [str(mult), str(len(cvs))]
    for c in cvs:
        parts += [h(c["lower"]), h(c["upper"]), h(c["width"]), h(c["period"])]
    for d in geo:
        parts += [h(d["lower"]), h(d["upper"]), h(d["width"])]
    parts += [str(len(data))] + [h(x) for x in data]
    return " ".join(parts)


NONDYADIC = [1.123456789, -3.987654321, 0.3, 2.718281828459045, -0.1234567891234, 7.000000001, 1e-3 * 3.3333333,
             # boundaries whose 15-digit rounding error exceeds the readers' 1e-10: a file written on such a grid is re-gridded when
             # read back by the same grid (premise of C15_roundtrip_multicol_formatted not met); the data must still come back
             123456.78901234567, -98765.432109876543]
NDWIDTH = [0.3, 0.1234, 1.0 / 3.0, 0.7, 2.5e-2, 1.1]


def rand_value(r, dy):
    if dy:
        return V.dyadic(r, -1000, 1000)
    m = r.random()
    if m < 0.15:
        return 0.0
    if m < 0.3:
        return r.choice([-1, 1]) * r.uniform(1, 9.99) * 10.0 ** r.randint(-12, 12)
    return r.uniform(-1000, 1000)


def rand_grid(r, dyadic_geom, dyadic_data, nd=None, mult=None, maxn=4):
    nd = nd or r.choice([1, 1, 2, 2, 3])
    nx = [r.randint(1, maxn) for _ in range(nd)]
    if nd == 3:
        nx = [min(n, 3) for n in nx]
    mult = mult or r.choice([1, 1, 2, 3, nd])
    if dyadic_geom:
        lower = [V.dyadic(r, -4, 4) for _ in range(nd)]
        width = [r.choice([1.0, 0.5, 0.25, 0.125, 2.0, 0.75, 1.5, 0.375]) for _ in range(nd)]
    else:
        lower = [r.choice(NONDYADIC) * r.choice([1, 1, -1, 10]) for _ in range(nd)]
        width = [r.choice(NDWIDTH) for _ in range(nd)]
    upper = [l + n * w for l, n, w in zip(lower, nx, width)]
    per = [r.randint(0, 1) for _ in range(nd)]
    nt = mult
    for n in nx:
        nt *= n
    data = [rand_value(r, dyadic_data) for _ in range(nt)]
    return {"mult": mult, "nd": nd, "nx": nx, "lower": lower, "upper": upper, "width": width, "per": per, "data": data}


def other_data(r, g, dy, keep_geom=True):
    g0 = dict(g)
    g0["data"] = [rand_value(r, dy) for _ in g["data"]]
    g0["per"] = [r.randint(0, 1) for _ in g["per"]]            # the readers never look at the receiving flags
    g0["upper"] = [u + r.choice([0, 0, 1.0]) for u in g["upper"]]  # nor at the upper boundaries
    return g0


def words_of(text):
    return [line.split() for line in text.split("\n")[:-1]] if text.endswith("\n") else [line.split() for line in text.split("\n")]


def mutate_text(r, text, kind):
    """a damaged copy of a written file: truncated at a token boundary / one token dropped / one token replaced by
    something that is not a number / an integer changed.  Returns (text, description) or None"""
    lines = words_of(text)
    pos = [(i, j) for i, l in enumerate(lines) for j in range(len(l))]
    if len(pos) < 2:
        return None
    if kind == "truncate":
        k = r.randint(1, len(pos) - 1)
        i, j = pos[k]
        new = [list(l) for l in lines[:i]] + [lines[i][:j]]
        return "\n".join(" ".join(l) for l in new) + "\n", "truncated after %d of %d tokens" % (k, len(pos))
    if kind == "truncate-rows":          # never inside the header (multicolumn file constructor)
        hdr = sum(len(l) for l in lines if l and l[0] == "#")
        if hdr + 1 >= len(pos):
            return None
        k = r.randint(hdr + 1, len(pos) - 1)
        i, j = pos[k]
        new = [list(l) for l in lines[:i]] + [lines[i][:j]]
        return "\n".join(" ".join(l) for l in new) + "\n", "truncated after %d of %d tokens" % (k, len(pos))
    k = r.randrange(len(pos))
    i, j = pos[k]
    new = [list(l) for l in lines]
    if kind == "renumber":     # n_colvars of another grid
        for qi, l in enumerate(new):
            if len(l) == 2 and l[0] == "n_colvars" and INT_RE.match(l[1]):
                new[qi][1] = str(int(l[1]) + r.choice([-1, 1, 2]))
                return "\n".join(" ".join(l_) for l_ in new) + "\n", "n_colvars changed to %s" % new[qi][1]
        return None
    if kind == "insert":       # one more number after a token: positional readers shift, parameter lines have a surplus value
        if new[i][j] in ("{", "}", "#") or new[i][j] in KEYS[:2] or (new[i] and new[i][0] == "#"):
            return None        # (a longer header line can still be a header, of another grid: that is the re-gridding case)
        new[i].insert(j + 1, "2")    # an integer: read whole both as an integer and as a real
        return "\n".join(" ".join(l) for l in new) + "\n", "a number inserted after token %d of line %d (%s)" % (j, i, lines[i][j])
    if new[i][j] == "{":
        return None            # read_block's one-word form ("key value") is not modelled
    if kind == "drop":
        if new[i][j] in KEYS[1:]:
            return None        # a missing keyword is legal: the current value is kept
        hdr_lines = [q for q, l in enumerate(lines) if l and l[0] == "#"]
        if hdr_lines and i == hdr_lines[-1] and j > 0 and len(hdr_lines) > 1:
            return None        # the fields of the last header line shift and its last integer is then extracted from the
                               # first bin centre ("3.1875e+00" read as 3): not expressible with whole tokens
        if INT_RE.match(new[i][j]):
            q = k + 1
            while q < len(pos) and INT_RE.match(lines[pos[q][0]][pos[q][1]]):
                q += 1
            if q < len(pos) and num_of(lex(lines[pos[q][0]][pos[q][1]] + "\n")[0]) is not None:
                return None    # the integer extractions shift and the last one stops in the middle of the real
                               # number that follows ("-3.9e+00" read as -3): not expressible with whole tokens
        del new[i][j]
        what = "token %d of line %d (%s) dropped" % (j, i, lines[i][j])
    elif kind == "garble":
        if new[i][j] in KEYS[1:]:
            return None
        new[i][j] = "xx"
        what = "token %d of line %d (%s) replaced by xx" % (j, i, lines[i][j])
    else:
        return None
    return "\n".join(" ".join(l) for l in new) + "\n", what


# ------------------------------------------------------------------------------------------------------------
FORMATS = ["multicol", "multicol", "raw", "rawg", "file", "state", "state", "dx", "remap"]


def gen_io_case(r, k):
    fmt = FORMATS[k % len(FORMATS)] if k < 2 * len(FORMATS) else r.choice(FORMATS)
    dy_geom = r.random() < 0.5
    dy_data = r.random() < 0.5
    c = {"id": k, "fmt": fmt, "dyadic_geom": dy_geom, "dyadic_data": dy_data}
    if fmt == "state":
        nd = r.choice([1, 1, 2, 2, 3])
        mult = r.choice([1, 1, 2, 3, nd])
        cvs, geo, geo0 = [], [], []
        for d in range(nd):
            n = r.randint(1, 4 if nd < 3 else 3)
            if dy_geom:
                w = r.choice([1.0, 0.5, 0.25, 2.0, 0.75]); lo = V.dyadic(r, -4, 4)
            else:
                w = r.choice(NDWIDTH); lo = r.choice(NONDYADIC[:7])   # (periodicity of a variable is ill-conditioned at 1e5)
            up = lo + n * w
            periodic = r.random() < 0.4
            cv = {"lower": lo, "upper": up, "width": w, "period": (up - lo) if periodic else 0.0}
            # the grid that is written: the variables' own definition, or an expanded / shifted one
            def sub_interval():
                # part of the period (at least one bin shorter): the grid of a periodic variable is then not periodic
                if n < 2:
                    return {"lower": lo, "upper": up, "width": w}
                a_ = r.randint(0, n - 1)
                b_ = r.randint(a_ + 1, n if a_ > 0 else n - 1)
                return {"lower": lo + a_ * w, "upper": lo + b_ * w, "width": w}
            m = r.random()
            if periodic:
                gd = {"lower": lo, "upper": up, "width": w} if m < 0.5 else sub_interval()
            elif m < 0.5:
                gd = {"lower": lo, "upper": up, "width": w}
            else:
                e1, e2 = r.randint(0, 2), r.randint(0, 2)
                gd = {"lower": lo - e1 * w, "upper": up + e2 * w, "width": w}
            # the receiving grid's current definition: the variables' own, the written one, or yet another
            m = r.random()
            if periodic:
                # whole period vs sub-interval, both directions: the periodicity flag of the grid read back must be that
                # of the grid that was written, not of the grid configured before the read
                g0 = {"lower": lo, "upper": up, "width": w} if m < 0.4 else (dict(gd) if m < 0.55 else sub_interval())
            elif m < 0.4:
                g0 = {"lower": lo, "upper": up, "width": w}
            elif m < 0.7:
                g0 = dict(gd)
            else:
                g0 = {"lower": lo - r.randint(0, 2) * w, "upper": up + r.randint(0, 1) * w, "width": w}
            cvs.append(cv); geo.append(gd); geo0.append(g0)
        def nt_of(gg):
            t = mult
            for d in gg:
                t *= int(round((d["upper"] - d["lower"]) / d["width"]))
            return t
        c.update({"mult": mult, "cvs": cvs, "geo": geo, "geo0": geo0,
                  "data": [rand_value(r, dy_data) for _ in range(nt_of(geo))],
                  "data0": [rand_value(r, dy_data) for _ in range(nt_of(geo0))]})
    elif fmt == "remap":
        # a file written on one grid read into a grid of another definition (same widths): the re-gridding branch of read_multicol,
        # multiplicity 1..3, add or overwrite; dyadic so that every bin decision is exact
        c["dyadic_geom"] = c["dyadic_data"] = True
        g = rand_grid(r, True, True)
        g0 = dict(g)
        g0["per"] = [r.randint(0, 1) for _ in g["per"]]
        g0["nx"] = [n if p else r.randint(1, 4) for n, p in zip(g["nx"], g0["per"])]
        g0["lower"] = [l + r.randint(-2 * n, 2 * n) * w * r.choice([1.0, 1.0, 0.5]) for l, n, w in zip(g["lower"], g["nx"], g["width"])]
        g0["upper"] = [l + n * w for l, n, w in zip(g0["lower"], g0["nx"], g0["width"])]
        nt0 = g["mult"]
        for n in g0["nx"]:
            nt0 *= n
        g0["data"] = [rand_value(r, True) for _ in range(nt0)]
        c["g"], c["g0"] = g, g0
        c["add"] = r.randint(0, 1)
    else:
        g = rand_grid(r, dy_geom, dy_data, mult=(1 if fmt == "dx" else None))
        c["g"] = g
        c["g0"] = other_data(r, g, dy_data)
        c["add"] = 1 if (fmt == "multicol" and r.random() < 0.3) else 0
        c["buf"] = {"raw": 3, "rawg": 8}.get(fmt, 3)
    kinds = {"multicol": ["truncate", "drop", "garble", "insert"], "raw": ["truncate", "drop", "garble"],
             "rawg": ["truncate", "drop", "garble"], "file": ["truncate-rows"], "state": ["truncate", "drop", "garble", "insert", "renumber"],
             "dx": [], "remap": ["truncate-rows", "garble"]}[fmt]
    c["mutations"] = [(kind, r.randint(0, 1 << 30)) for kind in kinds]
    return c


def write_cmds(c):
    f = c["fmt"]
    if f == "state":
        s = sspec(c["mult"], c["cvs"], c["geo"], c["data"])
        return "SW " + s, "WRITE state " + s
    s = spec(c["g"])
    if f in ("raw", "rawg"):
        return "GW %s %d %s" % (f, c["buf"], s), "WRITE %s %d %s" % (f, c["buf"], s)
    if f in ("file", "remap"):
        return "GW multicol " + s, "WRITE multicol " + s
    return "GW %s %s" % (f, s), "WRITE %s %s" % (f, s)


def read_cmds(c, text):
    """commands that read `text` with the real reader and the lexed text with the model reader"""
    f = c["fmt"]
    bar = text.replace("\n", "|")
    toks = " ".join(lex(text))
    if f == "state":
        s = sspec(c["mult"], c["cvs"], c["geo0"], c["data0"])
        return "SR %s TEXT %s" % (s, bar), "READ state %s TOKS %s" % (s, toks)
    if f == "file":
        return "GF %d TEXT %s" % (c["g"]["mult"], bar), "READ file %d TOKS %s" % (c["g"]["mult"], toks)
    s = spec(c["g0"])
    if f == "remap":
        return "GR multicol %d %s TEXT %s" % (c["add"], s, bar), "READ multicol %d %s TOKS %s" % (c["add"], s, toks)
    if f == "multicol":
        # every other case through the file-name variant of the reader (and its return code)
        return "GR %s %d %s TEXT %s" % ("multicolF" if c["id"] % 2 else "multicol", c["add"], s, bar), "READ multicol %d %s TOKS %s" % (c["add"], s, toks)
    return "GR raw %s TEXT %s" % (s, bar), "READ raw %s TOKS %s" % (s, toks)


def expected_after_read(c):
    """what the property demands of the grid read back (implementation-only oracle)"""
    f = c["fmt"]
    if f == "state":
        e = _expected_state(c)
        # one bin past each edge: wraps to the other end in a periodic dimension, outside (-9) otherwise
        e["edge"] = [v for n_, p_ in zip(e["nx"], e["per"]) for v in ((n_ - 1, 0) if p_ else (-9, -9))]
        return e
    return _expected_other(c)


def _expected_state(c):
    f = c["fmt"]
    if f == "state":
        geo = c["geo"]
        nx = [int(round((d["upper"] - d["lower"]) / d["width"])) for d in geo]
        per = [1 if (cv["period"] > 0 and abs(((d["upper"] - d["lower"]) / cv["period"]) - round((d["upper"] - d["lower"]) / cv["period"])) * cv["period"] / cv["width"] < 1e-10) else 0
               for cv, d in zip(c["cvs"], geo)]
        return {"mult": c["mult"], "nx": nx, "lower": [d["lower"] for d in geo], "upper": [d["upper"] for d in geo],
                "width": [d["width"] for d in geo], "per": per, "data": c["data"]}
def _expected_other(c):
    f = c["fmt"]
    g, g0 = c["g"], c["g0"]
    if f == "remap":
        import itertools, math
        e = dict(g0)
        data = list(g0["data"])
        m = g["mult"]
        for a, ix in enumerate(itertools.product(*[range(n) for n in g["nx"]])):
            tgt, ok = 0, True
            for d_ in range(g["nd"]):
                x = g["lower"][d_] + g["width"][d_] * (0.5 + ix[d_])
                b = math.floor((x - g0["lower"][d_]) / g0["width"][d_])
                if g0["per"][d_]:
                    b %= g0["nx"][d_]
                if not (0 <= b < g0["nx"][d_]):
                    ok = False
                tgt = tgt * g0["nx"][d_] + b
            if ok:
                for k_ in range(m):
                    data[tgt * m + k_] = (data[tgt * m + k_] if c["add"] else 0.0) + g["data"][a * m + k_]
        e["data"] = data
        return e
    if f == "file":
        return {"mult": g["mult"], "nx": g["nx"], "lower": g["lower"], "upper": [], "width": g["width"], "per": g["per"],
                "data": g["data"]}
    e = dict(g0)
    e["data"] = [a + b for a, b in zip(g0["data"], g["data"])] if c.get("add") else list(g["data"])
    if c.get("add"):
        e["_scale"] = {"data": [max(abs(a), abs(b)) for a, b in zip(g0["data"], g["data"])]}
    return e


def dx_header(text):
    h = {"counts": None, "origin": None, "delta": []}
    for line in text.split("\n"):
        w = line.split()
        if line.startswith("object 1 class gridpositions counts"):
            h["counts"] = [int(x) for x in w[5:]]
        elif line.startswith("origin"):
            h["origin"] = [float(x) for x in w[1:]]
        elif line.startswith("delta"):
            h["delta"].append([float(x) for x in w[1:]])
    return h


def multicol_layout_bad(g, text, tol):
    """implementation-only oracle for a written multicolumn file: header = (lower, width, size, periodic) per dimension,
    one row per bin in address order = bin centres lower + (i + 1/2) width followed by the mult values of that bin"""
    import itertools
    lines = text.split("\n")
    hdr = [l.split() for l in lines if l.startswith("#")]
    rows = [[float(x) for x in l.split()] for l in lines if l.strip() and not l.startswith("#")]
    nd, mult = g["nd"], g["mult"]
    if len(hdr) != nd + 1 or hdr[0] != ["#", str(nd)]:
        return "first line is not '# %d' followed by %d header lines" % (nd, nd)
    for i in range(nd):
        h = hdr[i + 1]
        if len(h) != 5 or not close(float(h[1]), g["lower"][i], tol) or not close(float(h[2]), g["width"][i], tol) \
                or int(h[3]) != g["nx"][i] or int(h[4]) != g["per"][i]:
            return "header line %d is %s; the grid has lower %r width %r size %d periodic %d" % (
                i + 1, h, g["lower"][i], g["width"][i], g["nx"][i], g["per"][i])
    want = []
    for a, ix in enumerate(itertools.product(*[range(n) for n in g["nx"]])):
        want.append([g["lower"][i] + g["width"][i] * (0.5 + ix[i]) for i in range(nd)] + g["data"][a * mult:(a + 1) * mult])
    if len(rows) != len(want):
        return "%d rows for %d bins" % (len(rows), len(want))
    for k, (r_, w_) in enumerate(zip(rows, want)):
        if len(r_) != len(w_) or any(not close(x, y, max(tol, 1e-15)) for x, y in zip(r_, w_)):
            return "row %d is %s; bin %d has centre and values %s" % (k, r_, k, w_)
    return None


def state_grid_bad(c, gi):
    """implementation-only oracle for a grid built on variables with given boundaries and widths (init_from_boundaries)"""
    if gi is None:
        return "no grid"
    for i, (cv, d) in enumerate(zip(c["cvs"], c["geo"])):
        nb = (d["upper"] - d["lower"]) / d["width"]
        n = int(round(nb))
        if gi["nx"][i] != n:
            return "dimension %d: %d bins for [%r, %r] width %r (%r bins)" % (i, gi["nx"][i], d["lower"], d["upper"], d["width"], nb)
        if not close(gi["upper"][i], d["lower"] + n * d["width"], 1e-9) or not close(gi["lower"][i], d["lower"], 0.0):
            return "dimension %d: boundaries %r..%r instead of %r..%r" % (i, gi["lower"][i], gi["upper"][i], d["lower"], d["lower"] + n * d["width"])
    return None


def run_io(run, r, unit, model, n):
    cases = [gen_io_case(r, k) for k in range(n)]
    wl = [write_cmds(c) for c in cases]
    # the grids of the restart-form cases, as the real code and the model size them from boundaries and widths
    sg = [c for c in cases if c["fmt"] == "state"]
    sgl = [sspec(c["mult"], c["cvs"], c["geo"], c["data"]) + " GRID" for c in sg]
    rc1, gi_, e1 = V.run_lines(unit, ["SW " + l for l in sgl], timeout=900)
    rc2, gm_, e2 = V.run_lines(model, ["WRITE state " + l for l in sgl], timeout=900)
    if len(gi_) != len(sgl):
        k = len(gi_)
        run.violation("io:crash:grid", "the real code died (rc=%d) building a grid: SW %s ... %s" % (rc1, sgl[k][:300], e1[-200:]),
                      {"kind": "unit", "case": "SW " + sgl[k]})
        return
    for c, l, oi, om in zip(sg, sgl, gi_, gm_ + ["<none>"] * len(sgl)):
        gi = parse_grid(oi)
        bad = state_grid_bad(c, gi)
        run.count("grid%d" % c["id"], True)
        if bad:
            run.violation("grid:sizes-from-boundaries", "a grid defined by boundaries and widths gets the wrong sizes: " + bad,
                          {"kind": "unit", "case": "SW " + l, "impl": oi})
        d = grids_differ(gi, parse_grid(om), 1e-12)
        if d:
            run.mismatch("grid:sizes-from-boundaries", "SW " + l[:500], oi[:300], om[:300] + " [" + d + "]")
    rc1, wi, e1 = V.run_lines(unit, [a for a, _ in wl], timeout=900)
    rc2, wm, e2 = V.run_lines(model, [b for _, b in wl], timeout=900)
    if len(wm) != len(wl):
        run.mismatch("io:model-driver", wl[min(len(wm), len(wl) - 1)][1][:400], "-", "model driver stopped (rc=%d): %s" % (rc2, e2[-200:]))
        return
    if len(wi) != len(wl):
        k = len(wi)
        run.violation("io:crash:write", "the real code died (rc=%d) on this grid: %s ... %s" % (rc1, wl[k][0][:300], e1[-200:]),
                      {"kind": "unit", "case": wl[k][0]})
        return
    rl, rmeta = [], []
    for c, ti, tm in zip(cases, wi, wm):
        f = c["fmt"]
        run.count("io%d" % c["id"], True)
        run.dist("io:" + f)
        run.dist("io:geom=" + ("dyadic" if c["dyadic_geom"] else "nondyadic"))
        tol = 0.0 if (c["dyadic_geom"] and c["dyadic_data"]) else 1e-13   # 14 significant digits are printed
        if not ti.startswith("T "):
            run.mismatch("io:write:" + f, {"case": wl[cases.index(c)][0][:400]}, ti[:300], tm[:300])
            continue
        text = ti[2:].replace("|", "\n")
        c["text"] = text
        if f == "dx":
            h = dx_header(text)
            g = c["g"]
            exp_origin = [l + 0.5 * w for l, w in zip(g["lower"], g["width"])]
            ok = (h["counts"] == g["nx"] and h["origin"] is not None and len(h["origin"]) == g["nd"] and
                  all(close(a, b, 1e-13) for a, b in zip(h["origin"], exp_origin)) and len(h["delta"]) == g["nd"] and
                  all(close(h["delta"][i][j], g["width"][i] if i == j else 0.0, 1e-13) for i in range(g["nd"]) for j in range(g["nd"])))
            if not ok:
                run.violation("io:dx:header", "OpenDX header %s does not describe the grid (sizes %s, first bin centres %s, widths %s)" % (
                    h, g["nx"], exp_origin, g["width"]), {"kind": "io", "cmd": wl[cases.index(c)][0], "text": text})
            mw = tm.split()
            try:
                i1, i2, i3 = mw.index("counts"), mw.index("origin"), mw.index("delta")
                mh = {"counts": [int(x) for x in mw[i1 + 1:i2]], "origin": [float.fromhex(x) for x in mw[i2 + 1:i3]],
                      "delta": [float.fromhex(x) for x in mw[i3 + 1:]]}
                flat = [x for row in h["delta"] for x in row]
                if mh["counts"] != h["counts"] or not all(close(a, b, 1e-13) for a, b in zip(mh["origin"], h["origin"] or [])) \
                        or len(flat) != len(mh["delta"]) or not all(close(a, b, 1e-13) for a, b in zip(mh["delta"], flat)):
                    run.mismatch("io:dx:header", {"cmd": wl[cases.index(c)][0][:300]}, h, mh)
            except ValueError:
                run.mismatch("io:dx:header", {"cmd": wl[cases.index(c)][0][:300]}, h, tm[:200])
            continue
        if f in ("multicol", "file", "remap"):
            bad = multicol_layout_bad(c["g"], text, max(tol, 0.0))
            if bad:
                run.violation("io:multicol:layout", "a multicolumn file does not describe the grid that was written: " + bad,
                              {"kind": "unit", "case": wl[cases.index(c)][0], "text": text})
        # 1. token stream of the real file vs the model's writer
        d = toks_differ(tm[2:].split(), lex(text), tol) if tm.startswith("T ") else "model printed " + tm[:100]
        if d:
            run.mismatch("io:write:" + f, {"cmd": wl[cases.index(c)][0][:600]}, text[:600], tm[:600] + "  [" + d + "]")
        # 2. read back; 3. damaged copies
        a, b = read_cmds(c, text)
        rl.append((a, b)); rmeta.append((c, None, text))
        for kind, sd in c["mutations"]:
            m = mutate_text(V.random.Random(sd), text, kind)
            if m:
                a, b = read_cmds(c, m[0])
                rl.append((a, b)); rmeta.append((c, kind + ": " + m[1], m[0]))
    rc1, ri, e1 = V.run_lines(unit, [a for a, _ in rl], timeout=900)
    rc2, rm, e2 = V.run_lines(model, [b for _, b in rl], timeout=900)
    if len(rm) != len(rl):
        run.mismatch("io:model-driver", rl[min(len(rm), len(rl) - 1)][1][:400], "-", "model driver stopped (rc=%d): %s" % (rc2, e2[-200:]))
        return
    if len(ri) != len(rl):
        k = len(ri)
        run.violation("io:crash:read", "the real code died (rc=%d) reading this file: %s ... %s" % (rc1, rl[k][0][:300], e1[-200:]),
                      {"kind": "unit", "case": rl[k][0]})
        return
    nrej = 0
    for (c, mut, text), (a, b), oi, om in zip(rmeta, rl, ri, rm):
        f = c["fmt"]
        tol = 0.0 if (c["dyadic_geom"] and c["dyadic_data"]) else 1e-12
        gi, gm = parse_grid(oi), parse_grid(om)
        if oi.split()[:1] not in (["G"], ["ERR"]):
            run.mismatch("io:read:" + f, {"cmd": a[:600]}, oi[:300], om[:300])
            continue
        run.count("io%d/%s" % (c["id"], mut), True)
        if mut is None:
            exp = expected_after_read(c)
            bad = grids_differ(gi, exp, tol) if gi is not None else "the reader rejected the file it had written"
            if gi is None and f == "remap":
                run.violation("io:remap:stream-failed", "a complete multicolumn file read into a grid of another definition (lower %s sizes %s) is reported as a failed read" % (
                    c["g0"]["lower"], c["g0"]["nx"]), {"kind": "io", "write": write_cmds(c)[0], "read": a, "text": text})
            elif bad and f == "remap":
                run.violation("io:remap", "a multicolumn file read into a grid of another definition (lower %s sizes %s periodic %s, add=%d): %s; every value belongs in the bin that contains its bin centre (modulo the period)" % (
                    c["g0"]["lower"], c["g0"]["nx"], c["g0"]["per"], c["add"], bad),
                    {"kind": "io", "write": write_cmds(c)[0], "read": a, "text": text, "expected": exp, "got": gi})
            elif bad and f == "state" and bad.startswith("per:"):
                run.violation("io:state:periodic-flags", "a grid written in restart form with periodicity flags %s (variables' periods %s, boundaries %s..%s) was read by a grid configured on %s..%s and came back with flags %s" % (
                    exp["per"], [cv["period"] for cv in c["cvs"]], exp["lower"], exp["upper"], [d_["lower"] for d_ in c["geo0"]], [d_["upper"] for d_ in c["geo0"]],
                    gi["per"] if gi else None), {"kind": "io", "write": write_cmds(c)[0], "read": a, "text": text, "expected": exp, "got": gi})
            elif bad:
                run.violation("io:roundtrip:" + f, "a grid written in %s form and read back is not the same grid (%s): wrote sizes %s lower %s upper %s widths %s periodic %s, read back %s" % (
                    f, bad, exp["nx"], exp["lower"], exp["upper"], exp["width"], exp["per"],
                    {k_: gi[k_] for k_ in ("nx", "lower", "upper", "width", "per")} if gi else "ERR"),
                    {"kind": "io", "write": write_cmds(c)[0], "read": a, "text": text, "expected": exp, "got": gi})
        else:
            run.dist("io:damaged:" + mut.split(":")[0])
            # (a re-gridded file cut between two records cannot be told from a shorter file: only the tie applies there)
            # nor can a file whose boundaries do not survive their own formatting within the reader's 1e-10: it is re-gridded
            # by the grid that wrote it (|boundary| above ~2e4 at 15 digits; premise of C15_roundtrip_multicol_formatted)
            regrid = f in ("multicol", "file") and any(abs(float("%.14e" % x) - x) > 1e-10 for x in c["g"]["lower"] + c["g"]["width"])
            if regrid:
                run.dist("io:regridded-by-rounding")
            if gi is not None and mut.startswith("truncate") and f != "remap" and not regrid:
                run.violation("io:truncated-accepted:" + f, "a %s file %s was accepted without any error (grid returned: %s)" % (f, mut, oi[:200]),
                              {"kind": "io", "read": a, "text": text})
            if gi is None:
                nrej += 1
        d = grids_differ(gi, gm, tol)
        if d:
            run.mismatch("io:read:" + f, {"cmd": a[:800], "damage": mut}, oi[:400], om[:400] + "  [" + d + "]")
    run.cov["correspondence"].update({"io_cases": len(cases), "io_reads": len(rl), "io_damaged_rejected": nrej})
    smp = next((c for c in cases if c["fmt"] == "state" and "text" in c), None)
    if smp:
        run.sample({"state_form_written_by_the_real_code": smp["text"].split("\n")[:12]})


# ------------------------------------------------------------------------------------------------------------
# round 3: decimal formatting, unformatted (memory_stream) raw form, grids normalised by a count grid, "# 0" header
import struct
from decimal import Decimal, ROUND_HALF_EVEN, getcontext


def dec_exact(x, p):
    """x rounded to p significant decimal digits, exactly (ties to even, as the C library does)"""
    if x == 0.0:
        return Decimal(0)
    getcontext().prec = 60
    d = Decimal(x)
    e = d.adjusted()
    q = Decimal(1).scaleb(e - p + 1)
    return (d / q).quantize(Decimal(1), rounding=ROUND_HALF_EVEN) * q


def run_round3(run, r, unit, model, n):
    # ---- decimal round trip of single numbers
    xs = []
    for k in range(n):
        m = r.random()
        if m < 0.2:
            x = V.dyadic(r, -1000, 1000)
        elif m < 0.5:
            x = r.choice([-1, 1]) * r.uniform(1, 9.999999) * 10.0 ** r.randint(-30, 30)
        elif m < 0.6:
            x = r.choice([-1, 1]) * (10.0 ** r.randint(-5, 5)) * (1 - r.choice([0, 1e-16, 3e-15, 4.9e-15, 5.1e-15]))   # next to a power of ten
        else:
            x = r.choice(NONDYADIC) * r.uniform(0.1, 1e4)
        xs.append((r.choice([14, 15, 15, 6]), x))
    lines = ["DEC %d %s" % (p, V.hexf(x)) for p, x in xs]
    rc1, oi, e1 = V.run_lines(unit, lines)
    rc2, om, e2 = V.run_lines(model, lines)
    for (p, x), li, lm, cmd in zip(xs, oi, om + ["?"] * len(lines), lines):
        w = li.split()
        run.count(cmd, True)
        run.dist("dec:p=%d" % p)
        if len(w) != 4:
            run.mismatch("dec:format", cmd, li, lm)
            continue
        want = dec_exact(x, p)
        for txt, back, style in ((w[0], w[1], "scientific"), (w[2], w[3], "default")):
            got = float.fromhex(back)
            bad = None
            if Decimal(txt) != want:
                bad = "printed %s, the nearest %d-digit decimal is %s" % (txt, p, want)
            elif got != float(txt):
                bad = "%s was read back as %r" % (txt, got)
            elif abs(Decimal(got) - Decimal(x)) > Decimal(abs(x)) * (Decimal(10) ** (1 - p)) / 2 + Decimal(abs(x)) * Decimal(2) ** -52:
                bad = "read back %r: further than half a unit of the last digit" % got
            if bad:
                run.violation("dec:roundtrip", "the number %r written with %d significant digits (%s notation) and read back: %s" % (x, p, style, bad),
                              {"kind": "unit", "case": cmd, "impl": li})
        try:
            mv = float.fromhex(lm)
        except ValueError:
            mv = None
        # the float instance of the model computes x*10^k in binary: agreement to one unit of the last digit
        if mv is None or abs(mv - float.fromhex(w[1])) > abs(x) * 10.0 ** (1 - p) * 1.01:
            run.mismatch("dec:roundtrip", cmd, li, lm)
    # ---- unformatted raw form: bit-exact
    cases = [rand_grid(r, r.random() < 0.5, r.random() < 0.3) for _ in range(max(8, n // 8))]
    rc1, wi, e1 = V.run_lines(unit, ["GWB " + spec(g) for g in cases])
    rc2, wm, e2 = V.run_lines(model, ["WRITE rawbin " + spec(g) for g in cases])
    rl, meta = [], []
    for g, ti, tm in zip(cases, wi, wm):
        run.count("bin" + spec(g)[:60], True)
        run.dist("io:rawbin")
        hx = ti[2:] if ti.startswith("X ") else ""
        vals = list(struct.unpack("<%dd" % (len(hx) // 16), bytes.fromhex(hx[:(len(hx) // 16) * 16]))) if hx else []
        mt = [float.fromhex(t[2:]) for t in tm[2:].split()] if tm.startswith("T ") else None
        if len(hx) != 16 * len(g["data"]) or [v.hex() for v in vals] != [float(v).hex() for v in g["data"]]:
            run.violation("io:roundtrip:rawbin", "the unformatted raw form of a grid is not its data array bit for bit: %s vs %s" % (vals[:6], g["data"][:6]),
                          {"kind": "unit", "case": "GWB " + spec(g), "impl": ti})
        if mt is None or [v.hex() for v in mt] != [v.hex() for v in vals]:
            run.mismatch("io:write:rawbin", "GWB " + spec(g)[:300], ti[:200], tm[:200])
        g0 = other_data(r, g, True)
        for cut in (0, r.randint(1, max(1, len(hx) // 2)), 8 * 2 * r.randint(1, max(1, len(g["data"])))):
            h2 = hx[:len(hx) - cut] if cut else hx
            toks = " ".join("N:" + v.hex() for v in struct.unpack("<%dd" % (len(h2) // 16), bytes.fromhex(h2[:(len(h2) // 16) * 16])))
            rl.append(("GRB %s HEX %s" % (spec(g0), h2 if h2 else "-"), "READ rawbin %s TOKS %s" % (spec(g0), toks)))
            meta.append((g, g0, cut))
    rc1, ri, e1 = V.run_lines(unit, [a for a, _ in rl])
    rc2, rm, e2 = V.run_lines(model, [b for _, b in rl])
    for (g, g0, cut), (a, b), oi_, om_ in zip(meta, rl, ri, rm + ["?"] * len(rl)):
        gi, gm = parse_grid(oi_), parse_grid(om_)
        run.count(a[:80] + str(cut), True)
        if cut == 0:
            exp = dict(g0); exp["data"] = g["data"]
            bad = grids_differ(gi, exp, 0.0) if gi else "rejected"
            if bad:
                run.violation("io:roundtrip:rawbin", "the unformatted raw form read back is not the same grid (%s)" % bad, {"kind": "unit", "case": a, "impl": oi_})
        elif gi is not None:
            run.violation("io:truncated-accepted:rawbin", "an unformatted raw stream cut by %d hex digits was accepted" % cut, {"kind": "unit", "case": a, "impl": oi_})
        d = grids_differ(gi, gm, 0.0)
        if d:
            run.mismatch("io:read:rawbin", a[:400], oi_[:200], om_[:200] + " [" + d + "]")
    # ---- gradient grids normalised by a count grid
    ncases = []
    for _ in range(max(8, n // 8)):
        dy = r.random() < 0.5
        g = rand_grid(r, True, dy)
        npts = len(g["data"]) // g["mult"]
        counts = [r.choice([0, 0, 1, 2, 3, 4, 7, 8, 1000]) for _ in range(npts)]
        honest = r.random() < 0.7       # the accumulators' invariant: no samples, no data
        if honest:
            g["data"] = [0.0 if counts[k // g["mult"]] == 0 else v for k, v in enumerate(g["data"])]
        ncases.append((g, counts, dy))
    rc1, ni_, e1 = V.run_lines(unit, ["GN %s C %d %s" % (spec(g), len(c), " ".join(map(str, c))) for g, c, _ in ncases])
    rc2, nm, e2 = V.run_lines(model, ["NORM %d %d %s %d %s" % (g["mult"], len(c), " ".join(V.hexf(float(x)) for x in c), len(g["data"]),
                                                             " ".join(V.hexf(x) for x in g["data"])) for g, c, _ in ncases])
    for (g, counts, dy), li, lm in zip(ncases, ni_, nm + ["?"] * len(ncases)):
        run.count("norm" + li[:60], True)
        run.dist("io:normalised")
        cmd = "GN %s C %d %s" % (spec(g), len(counts), " ".join(map(str, counts)))
        if " @@ " not in li or " @@ " not in lm:
            run.mismatch("io:normalised", cmd[:300], li[:200], lm[:200])
            continue
        text, back = li.split(" @@ ")
        gi = parse_grid(back)
        m_norm, m_back = [[float.fromhex(t) for t in part.split()] for part in lm.split(" @@ ")]
        rows = [[float(x) for x in l.split()] for l in text[2:].replace("|", "\n").split("\n") if l.strip() and not l.startswith("#")]
        written = [v for row in rows for v in row[g["nd"]:]]
        tol = 0.0 if dy else 1e-13
        mult = g["mult"]
        exp_written = [(g["data"][k] / counts[k // mult]) if counts[k // mult] > 0 else 0.0 for k in range(len(g["data"]))]
        if len(written) != len(exp_written) or any(not close(a_, b_, max(tol, 1e-14)) for a_, b_ in zip(written, exp_written)):
            run.violation("io:normalised:written", "a gradient grid with sample counts %s writes %s, the averages are %s" % (counts[:8], written[:8], exp_written[:8]),
                          {"kind": "unit", "case": cmd, "impl": li})
        if any(not close(a_, b_, max(tol, 1e-14)) for a_, b_ in zip(written, m_norm)) or len(written) != len(m_norm):
            run.mismatch("io:normalised:written", cmd[:300], written[:8], m_norm[:8])
        # read back: data where sampled (or zero), zero where a bin has data but no samples (documented by the theorems)
        exp_back = [g["data"][k] if counts[k // mult] > 0 else 0.0 for k in range(len(g["data"]))]
        if gi is None or any(not close(a_, b_, 1e-12) for a_, b_ in zip(gi["data"], exp_back)):
            run.violation("io:roundtrip:normalised", "a gradient grid normalised by its sample counts, written and read back with the same counts: %s, expected %s (counts %s)" % (
                gi["data"][:8] if gi else "ERR", exp_back[:8], counts[:8]), {"kind": "unit", "case": cmd, "impl": li})
        if gi is None or any(not close(a_, b_, 1e-12) for a_, b_ in zip(gi["data"], m_back)):
            run.mismatch("io:roundtrip:normalised", cmd[:300], back[:200], m_back[:8])
    # ---- a header announcing zero variables must be rejected, not looped over
    rc, o, e = V.sh([unit], input="GF 1 TEXT # 0|\nGF 1 TEXT # x|\nGF 1 TEXT #|\n", timeout=20)
    run.count("nd0-header", True)
    if rc == 124 or o.split("\n")[:3] != ["ERR", "ERR", "ERR"]:
        run.violation("io:hang:file-header-nd0", "the grid constructor given a multicolumn file whose header is '# 0', '# x' or '#' %s" % (
            "did not return within 20 s" if rc == 124 else "answered %s instead of an error" % o.split("\n")[:3]),
            {"kind": "unit", "case": "GF 1 TEXT # 0|"})


# ------------------------------------------------------------------------------------------------------------
# round 4: the remaining value->bin and grid->grid entry points of colvar_grid
import itertools, math
from fractions import Fraction as Fr


def run_round4(run, r, unit, model, n):
    widths = [1.0, 0.5, 0.25, 2.0, 0.75, 0.375]
    lines, meta = [], []
    # ---- value_to_bin_scalar / _bound / _fraction / get_colvars_index
    for k in range(n):
        nd = r.choice([1, 2, 3])
        nx = [r.randint(1, 6) for _ in range(nd)]
        lower = [V.dyadic(r, -4, 4) for _ in range(nd)]
        wd = [r.choice(widths) for _ in range(nd)]
        if r.random() < 0.3:      # the same geometry at another scale (1e-8 .. 1e8): exact, powers of two
            sc_ = 2.0 ** r.randint(-27, 27)
            lower = [l * sc_ for l in lower]; wd = [w * sc_ for w in wd]
        per = [r.randint(0, 1) for _ in range(nd)]
        xs = []
        for d in range(nd):
            q = r.random()
            if q < 0.3:
                xs.append(lower[d] + r.randint(-2, nx[d] + 2) * wd[d])
            elif q < 0.55:
                xs.append(lower[d] - r.randint(1, 15) * wd[d] / 8 if r.random() < 0.5 else lower[d] + nx[d] * wd[d] + r.randint(0, 15) * wd[d] / 8)
            elif q < 0.9:
                xs.append(lower[d] + r.randint(0, nx[d] * 8 - 1) * wd[d] / 8 + wd[d] / 16)
            else:
                xs.append(lower[d] + r.choice([-1, 1]) * r.randint(1, 5) * nx[d] * wd[d] + wd[d] / 4)
        lines.append("OPB %d %s %s %s %s %s" % (nd, " ".join(map(str, nx)), " ".join(map(V.hexf, lower)), " ".join(map(V.hexf, wd)),
                                                " ".join(map(str, per)), " ".join(map(V.hexf, xs))))
        meta.append(("OPB", nd, nx, lower, wd, per, xs))
    # ---- wrap / wrap_to_edge
    for k in range(n // 2):
        nd = r.choice([1, 2, 3])
        nx = [r.randint(1, 5) for _ in range(nd)]
        per = [r.randint(0, 1) for _ in range(nd)]
        ix = [r.randint(-3 * m, 3 * m + 1) if r.random() < 0.6 else r.randint(0, m - 1) for m in nx]
        lines.append("OPW %d %s %s %s" % (nd, " ".join(map(str, nx)), " ".join(map(str, per)), " ".join(map(str, ix))))
        meta.append(("OPW", nd, nx, per, ix))
    # ---- map_grid and the element-wise operations
    for k in range(n // 2):
        g1 = rand_grid(r, True, True)
        op = r.choice(["map", "map", "map", "add", "add", "copy", "delta", "mul", "addc", "small", "raw", "rawv", "set"])
        if op == "map":
            g2 = dict(g1)
            if r.random() < 0.7:     # another geometry: shifted by whole or half bins, other sizes
                g2["nx"] = [r.randint(1, 4) for _ in g1["nx"]]
                g2["lower"] = [l + r.randint(-4, 4) * w * r.choice([1.0, 0.5]) for l, w in zip(g1["lower"], g1["width"])]
                g2["upper"] = [l + m * w for l, m, w in zip(g2["lower"], g2["nx"], g2["width"])]
            nt2 = g1["mult"]
            for m in g2["nx"]:
                nt2 *= m
            g2["data"] = [rand_value(r, True) for _ in range(nt2)]
            lines.append("OPM %s %s" % (spec(g1), spec(g2)))
            meta.append(("OPM", g1, g2))
        else:
            g2 = other_data(r, g1, True)
            c = r.choice([1.0, 1.0, 0.5, -2.0, 3.0]) if op == "add" else V.dyadic(r, -4, 4)
            lines.append("OPE %s %s %s %s" % (op, V.hexf(c), spec(g1), spec(g2)))
            meta.append(("OPE", op, c, g1, g2))
    rc1, oi, e1 = V.run_lines(unit, lines)
    rc2, om, e2 = V.run_lines(model, lines)
    if len(oi) != len(lines):
        run.violation("ops:crash", "the real code died (rc=%d) on: %s" % (rc1, lines[len(oi)][:300]), {"kind": "unit", "case": lines[len(oi)]})
        return
    for cmd, mt, li, lm in zip(lines, meta, oi, om + ["?"] * len(lines)):
        kind = mt[0]
        run.count(cmd, True)
        run.dist("ops:" + kind + (":" + mt[1] if kind == "OPE" else ""))
        bad = None
        if kind == "OPB":
            _, nd, nx, lower, wd, per, xs = mt
            w = li.split()
            for d in range(nd):
                b, bb, fr_ = int(w[3 * d]), int(w[3 * d + 1]), Fr(float.fromhex(w[3 * d + 2]))
                q = (Fr(xs[d]) - Fr(lower[d])) / Fr(wd[d])
                fl = q.numerator // q.denominator
                if b != fl:
                    bad = "value %r: bin %d, the bin that contains it is %d" % (xs[d], b, fl)
                elif not (0 <= bb < nx[d]) or (0 <= fl < nx[d] and bb != fl) or (not per[d] and fl < 0 and bb != 0) or (not per[d] and fl >= nx[d] and bb != nx[d] - 1) \
                        or (per[d] and bb != fl % nx[d]):    # periodic: the bin that contains the value modulo the period
                    bad = "value %r (bin %d of %d, periodic %d): bounded bin %d" % (xs[d], fl, nx[d], per[d], bb)
                elif not (0 <= fr_ < 1) or fl + fr_ != q:
                    bad = "value %r: fraction %s inside bin %d, (x-lower)/width = %s" % (xs[d], float(fr_), fl, float(q))
            if w[3 * nd] != "I" or [int(t) for t in w[3 * nd + 1:]] != [int(w[3 * d]) for d in range(nd)]:
                bad = bad or "get_colvars_index differs from the per-dimension bins: %s" % li
        elif kind == "OPW":
            _, nd, nx, per, ix = mt
            w = li.split()
            r_ = [int(t) for t in w[:nd]]; e_ = [int(t) for t in w[nd + 1:2 * nd + 1]]; edge = int(w[2 * nd + 1])
            want_r = [(i % m) if p else i for i, m, p in zip(ix, nx, per)]
            want_e = [(i % m) if p else min(max(i, 0), m - 1) for i, m, p in zip(ix, nx, per)]
            want_edge = int(any((not p) and not (0 <= i < m) for i, m, p in zip(ix, nx, per)))
            ws = w[2 * nd + 3:]
            want_w = "ERR" if want_edge else " ".join(map(str, want_r))
            if r_ != want_r or e_ != want_e or edge != want_edge or " ".join(ws) != want_w:
                bad = "index %s on sizes %s periodic %s: wrap_to_edge gives %s / %s / %d, wrap gives %s" % (ix, nx, per, r_, e_, edge, " ".join(ws))
        elif kind == "OPM":
            _, g1, g2 = mt
            gi = parse_grid(li)
            m_ = g1["mult"]
            exp = list(g1["data"])
            for a_, ix in enumerate(itertools.product(*[range(q) for q in g1["nx"]])):
                tgt, ok = 0, True
                for d in range(g1["nd"]):
                    x = g1["lower"][d] + g1["width"][d] * (0.5 + ix[d])
                    b = math.floor((x - g2["lower"][d]) / g2["width"][d])
                    if not (0 <= b < g2["nx"][d]):
                        ok = False
                    tgt = tgt * g2["nx"][d] + b
                if ok:
                    exp[a_ * m_:(a_ + 1) * m_] = g2["data"][tgt * m_:(tgt + 1) * m_]
            if gi is None or gi["data"] != exp:
                bad = "map_grid of a grid on lower %s sizes %s onto lower %s sizes %s gives %s; every point takes the value of the bin that contains its centre: %s" % (
                    g2["lower"], g2["nx"], g1["lower"], g1["nx"], gi["data"][:8] if gi else "ERR", exp[:8])
        elif kind == "OPE":
            _, op, c, g1, g2 = mt
            gi = parse_grid(li)
            a_, b_ = g1["data"], g2["data"]
            exp = {"add": [x + c * y for x, y in zip(a_, b_)], "copy": b_, "raw": b_, "rawv": b_, "set": b_,
                   "delta": [y - x for x, y in zip(a_, b_)], "mul": [x * c for x in a_], "addc": [x + c for x in a_],
                   "small": [c if x < c else x for x in a_]}[op]
            if gi is None or gi["data"] != exp:
                bad = "%s(%r) gives %s, expected %s" % (op, c, gi["data"][:8] if gi else "ERR", exp[:8])
        if bad:
            run.violation("ops:" + kind, bad, {"kind": "unit", "case": cmd, "impl": li})
        if li.strip() != lm.strip():
            gi, gm = parse_grid(li), parse_grid(lm)
            if gi is None or gm is None or grids_differ(gi, gm, 0.0):
                run.mismatch("ops:" + kind, cmd[:500], li[:300], lm[:300])
    # ---- the overloads that take the current values of the variables (ABF, metadynamics, histogram call sites)
    cl, cm = [], []
    for k in range(max(8, n // 10)):
        nd = r.choice([1, 2, 3])
        cvs, zs = [], []
        for d in range(nd):
            w = r.choice([1.0, 0.5, 0.25, 2.0]); lo = V.dyadic(r, -4, 4); m = r.randint(1, 5)
            cvs.append({"lower": lo, "upper": lo + m * w, "width": w, "period": 0.0, "n": m})
            q = r.random()
            zs.append(lo + r.randint(-2, m + 2) * w if q < 0.3 else (lo - r.randint(1, 15) * w / 8 if q < 0.45 else
                      (lo + m * w + r.randint(0, 15) * w / 8 if q < 0.6 else lo + r.randint(0, 8 * m - 1) * w / 8 + w / 16)))
        cl.append("SW " + sspec(1, cvs, cvs, []) + " CUR " + " ".join(V.hexf(z) for z in zs))
        cm.append((cvs, zs))
    rc1, oi, e1 = V.run_lines(unit, cl)
    ml = []
    for (cvs, zs), li in zip(cm, oi):
        ml.append("OPB %d %s %s %s %s %s" % (len(cvs), " ".join(str(c["n"]) for c in cvs), " ".join(V.hexf(c["lower"]) for c in cvs),
                                            " ".join(V.hexf(c["width"]) for c in cvs), " ".join("0" for _ in cvs), " ".join(V.hexf(z) for z in zs)))
    rc2, om, e2 = V.run_lines(model, ml)
    for cmd, (cvs, zs), li, lm in zip(cl, cm, oi, om + ["?"] * len(cl)):
        run.count(cmd, True)
        run.dist("ops:current-values")
        w = li.split()
        nd = len(cvs)
        try:
            sect = {}
            key = None
            for t in w:
                if t in ("V", "B", "BB", "F", "I", "IB", "FLAT", "NX", "P"):
                    key = t; sect[key] = []
                else:
                    sect[key].append(t)
            vals = [float.fromhex(t) for t in sect["V"]]
            b = [int(t) for t in sect["B"]]; bb = [int(t) for t in sect["BB"]]; fr_ = [float.fromhex(t) for t in sect["F"]]
            flat = int(sect["FLAT"][0])
        except (KeyError, ValueError, IndexError):
            run.mismatch("ops:current-values", cmd[:300], li[:200], lm[:200]); continue
        bad = None
        if vals != zs:
            bad = "the variables were set to %s and report %s" % (zs, vals)
        exp_flat = 0
        for d, c in enumerate(cvs):
            q = (Fr(zs[d]) - Fr(c["lower"])) / Fr(c["width"])
            fl = q.numerator // q.denominator
            cl_ = min(max(fl, 0), c["n"] - 1)
            exp_flat = exp_flat * c["n"] + cl_
            if b[d] != fl or bb[d] != cl_ or Fr(fr_[d]) != q - fl:
                bad = bad or "variable at %r on [%r, %r) width %r: current bin %d (bounded %d, fraction %r), expected %d (%d, %r)" % (
                    zs[d], c["lower"], c["upper"], c["width"], b[d], bb[d], fr_[d], fl, cl_, float(q - fl))
        if [int(t) for t in sect["I"]] != b or [int(t) for t in sect["IB"]] != bb or flat != exp_flat:
            bad = bad or "get_colvars_index %s / _bound %s / current_bin_flat_bound %d disagree with the per-variable bins %s / %s (flat %d)" % (
                sect["I"], sect["IB"], flat, b, bb, exp_flat)
        if bad:
            run.violation("ops:current-values", bad, {"kind": "unit", "case": cmd, "impl": li})
        mw = lm.split()
        try:
            mb = [int(mw[3 * d]) for d in range(nd)]; mbb = [int(mw[3 * d + 1]) for d in range(nd)]; mf = [float.fromhex(mw[3 * d + 2]) for d in range(nd)]
        except (ValueError, IndexError):
            mb = None
        if mb is None or mb != b or mbb != bb or mf != fr_:
            run.mismatch("ops:current-values", cmd[:300], li[:200], lm[:200])
    # ---- bin_distance_from_boundaries on real (non-periodic and periodic) variables
    bl, bm = [], []
    for k in range(max(8, n // 10)):
        nd = r.choice([1, 2, 3])
        cvs, xs = [], []
        for d in range(nd):
            w = r.choice([1.0, 0.5, 0.25, 2.0]); lo = V.dyadic(r, -4, 4); m = r.randint(1, 5)
            up = lo + m * w
            cvs.append({"lower": lo, "upper": up, "width": w, "period": (up - lo) if r.random() < 0.3 else 0.0, "n": m})
            q = r.random()
            xs.append(lo + r.randint(-1, m + 1) * w if q < 0.35 else (lo - r.randint(1, 15) * w / 8 if q < 0.5 else
                      (up + r.randint(1, 15) * w / 8 if q < 0.65 else lo + r.randint(0, 8 * m) * w / 8)))
        bl.append("SW " + sspec(1, cvs, cvs, []) + " BDIST " + " ".join(V.hexf(x) for x in xs))
        bm.append((cvs, xs))
    rc1, oi, e1 = V.run_lines(unit, bl)
    ml = ["BDIST %d %s %s %s %s %s" % (len(cvs), " ".join("1" if c["period"] > 0 else "0" for c in cvs), " ".join(V.hexf(c["lower"]) for c in cvs),
                                       " ".join(V.hexf(c["upper"]) for c in cvs), " ".join(V.hexf(c["width"]) for c in cvs), " ".join(V.hexf(x) for x in xs))
          for cvs, xs in bm]
    rc2, om, e2 = V.run_lines(model, ml)
    for cmd, (cvs, xs), li, lm in zip(bl, bm, oi, om + ["?"] * len(bl)):
        run.count(cmd, True)
        run.dist("ops:bin-distance")
        try:
            got = float.fromhex(li.split()[0])
        except (ValueError, IndexError):
            run.mismatch("ops:bin-distance", cmd[:300], li[:200], lm[:200]); continue
        cand = [v_ for c, x in zip(cvs, xs) if c["period"] == 0 for v_ in ((x - c["lower"]) / c["width"], (c["upper"] - x) / c["width"])]
        want = min(cand) if cand else 1e16
        if got != want:
            run.violation("ops:bin-distance", "values %s on boundaries %s..%s (periodic %s): distance from the boundaries %r bins, the smallest of the signed distances is %r" % (
                xs, [c["lower"] for c in cvs], [c["upper"] for c in cvs], [int(c["period"] > 0) for c in cvs], got, want), {"kind": "unit", "case": cmd, "impl": li})
        try:
            mv = float.fromhex(lm)
        except ValueError:
            mv = None
        if mv != got:
            run.mismatch("ops:bin-distance", cmd[:300], li[:200], lm[:200])
    # ---- add_extra_bin on real variables
    xl, xm = [], []
    for k in range(max(6, n // 10)):
        nd = r.choice([1, 2, 3])
        cvs = []
        for d in range(nd):
            w = r.choice([1.0, 0.5, 0.25, 0.3, 0.7]); lo = r.choice([V.dyadic(r, -4, 4), r.choice(NONDYADIC[:7])]); m = r.randint(1, 4)
            up = lo + m * w
            cvs.append({"lower": lo, "upper": up, "width": w, "period": (up - lo) if r.random() < 0.4 else 0.0, "n": m})
        xl.append(("SW " + sspec(1, cvs, cvs, []) + " XGRID", "XBIN %d %s" % (nd, " ".join("%s %s %s %s" % (V.hexf(c["lower"]), V.hexf(c["upper"]), V.hexf(c["width"]), V.hexf(c["period"])) for c in cvs))))
        xm.append(cvs)
    rc1, oi, e1 = V.run_lines(unit, [a for a, _ in xl])
    rc2, om, e2 = V.run_lines(model, [b for _, b in xl])
    for (a, b), cvs, li, lm in zip(xl, xm, oi, om + ["?"] * len(xl)):
        gi = parse_grid(li)
        run.count(a, True)
        run.dist("ops:extra-bin")
        if gi is None:
            run.mismatch("ops:extra-bin", a[:300], li[:200], lm[:200]); continue
        bad = None
        for d, c in enumerate(cvs):
            per = c["period"] > 0
            if gi["nx"][d] != (c["n"] if per else c["n"] + 1) or not close(gi["lower"][d], c["lower"] - c["width"] / 2, 1e-13) or gi["per"][d] != int(per):
                bad = "variable on [%r, %r] width %r (%s): grid with an extra bin has %d points from %r, periodic %d" % (
                    c["lower"], c["upper"], c["width"], "periodic" if per else "not periodic", gi["nx"][d], gi["lower"][d], gi["per"][d])
        if bad:
            run.violation("ops:extra-bin", bad, {"kind": "unit", "case": a, "impl": li})
        mw = lm.split()
        try:
            ok = all(int(mw[4 * d]) == gi["nx"][d] and close(float.fromhex(mw[4 * d + 1]), gi["lower"][d], 1e-13) and
                     close(float.fromhex(mw[4 * d + 2]), gi["upper"][d], 1e-13) and int(mw[4 * d + 3]) == gi["per"][d] for d in range(len(cvs)))
        except (ValueError, IndexError):
            ok = False
        if not ok:
            run.mismatch("ops:extra-bin", a[:300], li[:200], lm[:200])
