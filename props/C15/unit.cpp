// C15 unit driver: calls the real colvar_grid functions on the same case lines as the model driver.
#include "vsim.h"
#include "colvargrid.h"
#include "colvargrid_def.h"

static double num(std::string const &s) { return strtod(s.c_str(), NULL); }

int main(int argc, char **argv)
{
  vsim_engine eng; eng.resize(1);
  vsim_proxy *proxy = new vsim_proxy(&eng, true);   // the grid classes need cvm::main()
  std::string line;
  while (std::getline(std::cin, line)) {
    std::istringstream is(line);
    std::string cmd; if (!(is >> cmd)) continue;
    std::vector<std::string> a; std::string w; while (is >> w) a.push_back(w);
    size_t p = 0;
    auto nf = [&]() { return num(a[p++]); };
    auto ni = [&]() { return atoi(a[p++].c_str()); };
    if (cmd == "BIN") {
      double l = nf(), wd = nf(), x = nf();
      colvar_grid_scalar g;
      g.lower_boundaries.push_back(colvarvalue(l));
      g.widths.push_back(wd);
      std::cout << g.value_to_bin_scalar(colvarvalue(x), 0) << "\n";
    } else if (cmd == "ADDR") {
      int mult = ni(), nd = ni();
      std::vector<int> nx(nd), ix(nd);
      for (int i = 0; i < nd; i++) nx[i] = ni();
      for (int i = 0; i < nd; i++) ix[i] = ni();
      colvar_grid<double> g(nx, 0.0, mult);
      if (g.index_ok(ix)) std::cout << "ok " << g.address(ix) << "\n"; else std::cout << "out\n";
    } else if (cmd == "INCR") {
      int nd = ni();
      std::vector<int> nx(nd), ix(nd);
      for (int i = 0; i < nd; i++) nx[i] = ni();
      for (int i = 0; i < nd; i++) ix[i] = ni();
      colvar_grid<double> g(nx, 0.0, 1);
      g.incr(ix);
      std::cout << (g.index_ok(ix) ? "ok" : "end");
      for (int i = 0; i < nd; i++) std::cout << " " << ix[i];
      std::cout << "\n";
    } else if (cmd == "RT") {
      // round trip of grid files: RT fmt mult nd nx.. lower.. width.. periodic.. data(nt)
      std::string fmt = a[p++];
      int mult = ni(), nd = ni();
      std::vector<int> nx(nd);
      for (int i = 0; i < nd; i++) nx[i] = ni();
      colvar_grid<double> g(nx, 0.0, mult), g2(nx, 0.0, mult);
      for (int i = 0; i < nd; i++) { double l = nf(); g.lower_boundaries.push_back(colvarvalue(l)); g2.lower_boundaries.push_back(colvarvalue(l)); }
      for (int i = 0; i < nd; i++) { double wd = nf(); g.widths.push_back(wd); g2.widths.push_back(wd); }
      for (int i = 0; i < nd; i++) {
        g.upper_boundaries.push_back(colvarvalue(g.lower_boundaries[i].real_value + nx[i] * g.widths[i]));
        g2.upper_boundaries.push_back(g.upper_boundaries[i]);
      }
      for (int i = 0; i < nd; i++) { bool per = ni() != 0; g.periodic.push_back(per); g2.periodic.push_back(per); }
      for (size_t k = 0; k < g.nt; k++) g.data[k] = nf();
      g.has_data = true;
      bool ok = true;
      std::string detail;
      if (fmt == "multicol") {
        std::ostringstream os; g.write_multicol(os);
        std::istringstream iss(os.str()); g2.read_multicol(iss, false);
      } else if (fmt == "raw") {
        std::ostringstream os; os.setf(std::ios::scientific, std::ios::floatfield); os.precision(14); os.width(21);
        g.write_raw(os, 3);
        std::istringstream iss(os.str()); g2.read_raw(iss);
      } else if (fmt == "binary") {
        cvm::memory_stream os; g.write_raw(os);
        cvm::memory_stream iss(os.length(), os.output_buffer()); g2.read_raw(iss);
        if (!iss) ok = false;
      }
      for (size_t k = 0; k < g.nt; k++) if (g.data[k] != g2.data[k]) { ok = false; detail = " first-diff=" + cvm::to_str(k); break; }
      std::cout << (ok ? "same" : "differ") << detail << "\n";
      cvm::clear_error();
    } else if (cmd == "REMAP") {
      // REMAP nd nxA.. nxB.. lowerA.. lowerB.. width.. periodic.. dataA..
      int nd = ni();
      std::vector<int> nxa(nd), nxb(nd);
      for (int i = 0; i < nd; i++) nxa[i] = ni();
      for (int i = 0; i < nd; i++) nxb[i] = ni();
      colvar_grid<double> ga(nxa, 0.0, 1), gb(nxb, 0.0, 1);
      for (int i = 0; i < nd; i++) ga.lower_boundaries.push_back(colvarvalue(nf()));
      for (int i = 0; i < nd; i++) gb.lower_boundaries.push_back(colvarvalue(nf()));
      for (int i = 0; i < nd; i++) { double wd = nf(); ga.widths.push_back(wd); gb.widths.push_back(wd); }
      for (int i = 0; i < nd; i++) {
        ga.upper_boundaries.push_back(colvarvalue(ga.lower_boundaries[i].real_value + nxa[i] * ga.widths[i]));
        gb.upper_boundaries.push_back(colvarvalue(gb.lower_boundaries[i].real_value + nxb[i] * gb.widths[i]));
      }
      for (int i = 0; i < nd; i++) { bool per = ni() != 0; ga.periodic.push_back(per); gb.periodic.push_back(per); }
      for (size_t k = 0; k < ga.nt; k++) ga.data[k] = nf();
      ga.has_data = true;
      std::ostringstream os; ga.write_multicol(os);
      std::istringstream iss(os.str()); gb.read_multicol(iss, false);
      for (size_t k = 0; k < gb.nt; k++) std::cout << (k ? " " : "") << vs_hex(gb.data[k]);
      std::cout << "\n";
      cvm::clear_error();
    } else {
      std::cout << "?\n";
    }
  }
  delete proxy;
  return 0;
}
