// C15 unit driver: calls the real colvar_grid functions on the same case lines as the model driver.
#include "vsim.h"
#include "colvargrid.h"
#include "colvargrid_def.h"

static double num(std::string const &s) { return strtod(s.c_str(), NULL); }


// ---- grid files: the real writers/readers on explicit grids (text passed through python, '|' = newline)
struct gspec {
  int mult, nd; std::vector<int> nx, per; std::vector<double> lower, upper, width, data;
};
static gspec read_spec(std::vector<std::string> const &a, size_t &p)
{
  gspec s;
  s.mult = atoi(a[p++].c_str()); s.nd = atoi(a[p++].c_str());
  for (int i = 0; i < s.nd; i++) s.nx.push_back(atoi(a[p++].c_str()));
  for (int i = 0; i < s.nd; i++) s.lower.push_back(num(a[p++]));
  for (int i = 0; i < s.nd; i++) s.upper.push_back(num(a[p++]));
  for (int i = 0; i < s.nd; i++) s.width.push_back(num(a[p++]));
  for (int i = 0; i < s.nd; i++) s.per.push_back(atoi(a[p++].c_str()));
  int n = atoi(a[p++].c_str());
  for (int i = 0; i < n; i++) s.data.push_back(num(a[p++]));
  return s;
}
static void fill_grid(colvar_grid<double> &g, gspec const &s)
{
  g.setup(s.nx, 0.0, s.mult);
  for (int i = 0; i < s.nd; i++) {
    g.lower_boundaries.push_back(colvarvalue(s.lower[i]));
    g.upper_boundaries.push_back(colvarvalue(s.upper[i]));
    g.widths.push_back(s.width[i]);
    g.periodic.push_back(s.per[i] != 0);
  }
  for (size_t k = 0; k < g.nt && k < s.data.size(); k++) g.data[k] = s.data[k];
  g.has_data = true;
}
static std::string bar(std::string t) { for (auto &c : t) if (c == '\n') c = '|'; return t; }
static std::string unbar(std::string t) { for (auto &c : t) if (c == '|') c = '\n'; return t; }
static std::string text_arg(std::string const &line)
{
  size_t q = line.find(" TEXT ");
  if (q == std::string::npos) return std::string();
  return unbar(line.substr(q + 6));
}
template <class G> static void print_grid(G const &g)
{
  std::cout << "G " << g.mult << " " << g.nd;
  for (size_t i = 0; i < g.nx.size(); i++) std::cout << " " << g.nx[i];
  std::cout << " L " << g.lower_boundaries.size();
  for (auto const &v : g.lower_boundaries) std::cout << " " << vs_hex(v.real_value);
  std::cout << " U " << g.upper_boundaries.size();
  for (auto const &v : g.upper_boundaries) std::cout << " " << vs_hex(v.real_value);
  std::cout << " W " << g.widths.size();
  for (auto const &v : g.widths) std::cout << " " << vs_hex(v);
  std::cout << " P " << g.periodic.size();
  for (size_t i = 0; i < g.periodic.size(); i++) std::cout << " " << (g.periodic[i] ? 1 : 0);
  std::cout << " D " << g.data.size();
  for (auto const &v : g.data) std::cout << " " << vs_hex(double(v));
  std::cout << "\n";
}
// variables for the restart form: one exact distanceZ per dimension
static std::string cv_config(int nd, std::vector<double> const &cl, std::vector<double> const &cu,
                             std::vector<double> const &cw, std::vector<double> const &cp)
{
  std::ostringstream c; c.precision(17);
  for (int i = 0; i < nd; i++) {
    c << "colvar {\n  name v" << i << "\n  lowerBoundary " << cl[i] << "\n  upperBoundary " << cu[i]
      << "\n  width " << cw[i] << "\n  distanceZ {\n    main { atomNumbers " << (i + 1)
      << " }\n    ref { dummyAtom (0,0,0) }\n    axis (0,0,1)\n";
    if (cp[i] > 0.0) c << "    period " << cp[i] << "\n";
    c << "  }\n}\n";
  }
  return c.str();
}
struct sspec { int mult, nd; std::vector<double> cl, cu, cw, cp, gl, gu, gw, data; };
static sspec read_sspec(std::vector<std::string> const &a, size_t &p)
{
  sspec s; s.mult = atoi(a[p++].c_str()); s.nd = atoi(a[p++].c_str());
  for (int i = 0; i < s.nd; i++) { s.cl.push_back(num(a[p++])); s.cu.push_back(num(a[p++])); s.cw.push_back(num(a[p++])); s.cp.push_back(num(a[p++])); }
  for (int i = 0; i < s.nd; i++) { s.gl.push_back(num(a[p++])); s.gu.push_back(num(a[p++])); s.gw.push_back(num(a[p++])); }
  int n = atoi(a[p++].c_str());
  for (int i = 0; i < n; i++) s.data.push_back(num(a[p++]));
  return s;
}
// a grid on the module's variables whose boundaries/widths are then set as requested (init_from_boundaries + setup)
static colvar_grid<double> *state_grid(colvarmodule *cv, sspec const &s, bool extra_bin = false)
{
  std::vector<colvar *> cvs(*cv->variables());
  if (extra_bin) return new colvar_grid<double>(cvs, 0.0, s.mult, true);   // the variables' own boundaries, shifted
  colvar_grid<double> *g = new colvar_grid<double>(cvs, 0.0, s.mult);
  for (int i = 0; i < s.nd; i++) {
    g->lower_boundaries[i] = colvarvalue(s.gl[i]);
    g->upper_boundaries[i] = colvarvalue(s.gu[i]);
    g->widths[i] = s.gw[i];
  }
  g->init_from_boundaries();
  g->setup();
  for (size_t k = 0; k < g->nt && k < s.data.size(); k++) g->data[k] = s.data[k];
  g->has_data = true;
  return g;
}

int main(int argc, char **argv)
{
  vsim_engine eng; eng.resize(3);
  vsim_proxy *proxy = new vsim_proxy(&eng, true);   // the grid classes need cvm::main()
  std::string line;
  while (std::getline(std::cin, line)) {
    std::istringstream is(line);
    std::string cmd; if (!(is >> cmd)) continue;
    std::vector<std::string> a; std::string w; while (is >> w) a.push_back(w);
    size_t p = 0;
    auto nf = [&]() { return num(a[p++]); };
    auto ni = [&]() { return atoi(a[p++].c_str()); };
    if (cmd == "BIN") {
      double l = nf(), wd = nf(), x = nf();
      colvar_grid_scalar g;
      g.lower_boundaries.push_back(colvarvalue(l));
      g.widths.push_back(wd);
      std::cout << g.value_to_bin_scalar(colvarvalue(x), 0) << "\n";
    } else if (cmd == "ADDR") {
      int mult = ni(), nd = ni();
      std::vector<int> nx(nd), ix(nd);
      for (int i = 0; i < nd; i++) nx[i] = ni();
      for (int i = 0; i < nd; i++) ix[i] = ni();
      colvar_grid<double> g(nx, 0.0, mult);
      if (g.index_ok(ix)) std::cout << "ok " << g.address(ix) << "\n"; else std::cout << "out\n";
    } else if (cmd == "INCR") {
      int nd = ni();
      std::vector<int> nx(nd), ix(nd);
      for (int i = 0; i < nd; i++) nx[i] = ni();
      for (int i = 0; i < nd; i++) ix[i] = ni();
      colvar_grid<double> g(nx, 0.0, 1);
      g.incr(ix);
      std::cout << (g.index_ok(ix) ? "ok" : "end");
      for (int i = 0; i < nd; i++) std::cout << " " << ix[i];
      std::cout << "\n";
    } else if (cmd == "RT") {
      // round trip of grid files: RT fmt mult nd nx.. lower.. width.. periodic.. data(nt)
      std::string fmt = a[p++];
      int mult = ni(), nd = ni();
      std::vector<int> nx(nd);
      for (int i = 0; i < nd; i++) nx[i] = ni();
      colvar_grid<double> g(nx, 0.0, mult), g2(nx, 0.0, mult);
      for (int i = 0; i < nd; i++) { double l = nf(); g.lower_boundaries.push_back(colvarvalue(l)); g2.lower_boundaries.push_back(colvarvalue(l)); }
      for (int i = 0; i < nd; i++) { double wd = nf(); g.widths.push_back(wd); g2.widths.push_back(wd); }
      for (int i = 0; i < nd; i++) {
        g.upper_boundaries.push_back(colvarvalue(g.lower_boundaries[i].real_value + nx[i] * g.widths[i]));
        g2.upper_boundaries.push_back(g.upper_boundaries[i]);
      }
      for (int i = 0; i < nd; i++) { bool per = ni() != 0; g.periodic.push_back(per); g2.periodic.push_back(per); }
      for (size_t k = 0; k < g.nt; k++) g.data[k] = nf();
      g.has_data = true;
      bool ok = true;
      std::string detail;
      if (fmt == "multicol") {
        std::ostringstream os; g.write_multicol(os);
        std::istringstream iss(os.str()); g2.read_multicol(iss, false);
      } else if (fmt == "raw") {
        std::ostringstream os; os.setf(std::ios::scientific, std::ios::floatfield); os.precision(14); os.width(21);
        g.write_raw(os, 3);
        std::istringstream iss(os.str()); g2.read_raw(iss);
      } else if (fmt == "binary") {
        cvm::memory_stream os; g.write_raw(os);
        cvm::memory_stream iss(os.length(), os.output_buffer()); g2.read_raw(iss);
        if (!iss) ok = false;
      }
      for (size_t k = 0; k < g.nt; k++) if (g.data[k] != g2.data[k]) { ok = false; detail = " first-diff=" + cvm::to_str(k); break; }
      std::cout << (ok ? "same" : "differ") << detail << "\n";
      cvm::clear_error();
    } else if (cmd == "REMAP") {
      // REMAP nd nxA.. nxB.. lowerA.. lowerB.. width.. periodic.. dataA..
      int nd = ni();
      std::vector<int> nxa(nd), nxb(nd);
      for (int i = 0; i < nd; i++) nxa[i] = ni();
      for (int i = 0; i < nd; i++) nxb[i] = ni();
      colvar_grid<double> ga(nxa, 0.0, 1), gb(nxb, 0.0, 1);
      for (int i = 0; i < nd; i++) ga.lower_boundaries.push_back(colvarvalue(nf()));
      for (int i = 0; i < nd; i++) gb.lower_boundaries.push_back(colvarvalue(nf()));
      for (int i = 0; i < nd; i++) { double wd = nf(); ga.widths.push_back(wd); gb.widths.push_back(wd); }
      for (int i = 0; i < nd; i++) {
        ga.upper_boundaries.push_back(colvarvalue(ga.lower_boundaries[i].real_value + nxa[i] * ga.widths[i]));
        gb.upper_boundaries.push_back(colvarvalue(gb.lower_boundaries[i].real_value + nxb[i] * gb.widths[i]));
      }
      for (int i = 0; i < nd; i++) { bool per = ni() != 0; ga.periodic.push_back(per); gb.periodic.push_back(per); }
      for (size_t k = 0; k < ga.nt; k++) ga.data[k] = nf();
      ga.has_data = true;
      std::ostringstream os; ga.write_multicol(os);
      std::istringstream iss(os.str()); gb.read_multicol(iss, false);
      for (size_t k = 0; k < gb.nt; k++) std::cout << (k ? " " : "") << vs_hex(gb.data[k]);
      std::cout << "\n";
      cvm::clear_error();
    } else if (cmd == "GW") {
      // GW multicol|raw <buf>|rawg <buf>|dx <spec> : the file as the real writer produces it
      std::string fmt = a[p++];
      int buf = 3;
      if (fmt == "raw" || fmt == "rawg") buf = ni();
      gspec sp = read_spec(a, p);
      colvar_grid<double> g; fill_grid(g, sp);
      std::ostringstream os;
      if (fmt == "multicol") g.write_multicol(os);
      else if (fmt == "raw") { os.setf(std::ios::scientific, std::ios::floatfield); os.precision(14); os.width(21); g.write_raw(os, buf); }
      else if (fmt == "rawg") { os.setf(std::ios::fmtflags(0), std::ios::floatfield); os.precision(14); g.write_raw(os, buf); }
      else if (fmt == "dx") { os.precision(14); g.write_opendx(os); }
      std::cout << "T " << bar(os.str()) << "\n";
      cvm::clear_error();
    } else if (cmd == "GR") {
      // GR multicol <add>|raw <spec of the receiving grid> TEXT <file> : the real reader; prints the grid or ERR
      std::string fmt = a[p++];
      bool add = false;
      bool remap_expected = (fmt == "multicolR");   // the re-gridding loop always ends with the stream at EOF in the failed state
      if (remap_expected) fmt = "multicol";
      bool via_file = (fmt == "multicolF");
      if (via_file) fmt = "multicol";
      if (fmt == "multicol") add = ni() != 0;
      gspec sp = read_spec(a, p);
      colvar_grid<double> g; fill_grid(g, sp);
      std::istringstream is(text_arg(line));
      cvm::clear_error();
      bool bad;
      if (via_file) {
        // the file-name variant: read_multicol(filename, description, add) and its return code
        std::string fn = "c15_gr.dat";
        { std::ofstream f(fn.c_str()); f << text_arg(line); }
        int rcode = g.read_multicol(fn, "grid file", add);
        bad = (rcode != COLVARS_OK) || (cvm::get_error() != COLVARS_OK);
        proxy->close_input_streams();
        remove(fn.c_str());
      } else {
        if (fmt == "multicol") g.read_multicol(is, add); else g.read_raw(is);
        bad = (!is) || (cvm::get_error() != COLVARS_OK);
      }
      if (bad) std::cout << "ERR\n"; else print_grid(g);
      cvm::clear_error();
    } else if (cmd == "OPB") {
      // OPB nd nx.. lower.. width.. per.. x.. : per dimension value_to_bin_scalar, _bound, _fraction; then get_colvars_index
      int nd = ni();
      std::vector<int> nx(nd);
      for (int i = 0; i < nd; i++) nx[i] = ni();
      colvar_grid<double> g(nx, 0.0, 1);
      for (int i = 0; i < nd; i++) g.lower_boundaries.push_back(colvarvalue(nf()));
      for (int i = 0; i < nd; i++) g.widths.push_back(nf());
      for (int i = 0; i < nd; i++) g.periodic.push_back(ni() != 0);
      std::vector<colvarvalue> xs;
      for (int i = 0; i < nd; i++) xs.push_back(colvarvalue(nf()));
      for (int i = 0; i < nd; i++)
        std::cout << (i ? " " : "") << g.value_to_bin_scalar(xs[i], i) << " " << g.value_to_bin_scalar_bound(xs[i], i) << " "
                  << vs_hex(g.value_to_bin_scalar_fraction(xs[i], i));
      std::vector<int> ci = g.get_colvars_index(xs);
      std::cout << " I";
      for (int i = 0; i < nd; i++) std::cout << " " << ci[i];
      std::cout << "\n";
    } else if (cmd == "OPW") {
      // OPW nd nx.. per.. ix.. : wrap_to_edge (index, edge bin, flag), then wrap (or ERR)
      int nd = ni();
      std::vector<int> nx(nd), ix(nd);
      for (int i = 0; i < nd; i++) nx[i] = ni();
      colvar_grid<double> g(nx, 0.0, 1);
      for (int i = 0; i < nd; i++) g.periodic.push_back(ni() != 0);
      for (int i = 0; i < nd; i++) ix[i] = ni();
      std::vector<int> r(ix), e;
      bool edge = g.wrap_to_edge(r, e);
      for (int i = 0; i < nd; i++) std::cout << r[i] << " ";
      std::cout << "E";
      for (int i = 0; i < nd; i++) std::cout << " " << e[i];
      std::cout << " " << (edge ? 1 : 0) << " W";
      cvm::clear_error();
      std::vector<int> w2(ix); g.wrap(w2);
      if (cvm::get_error() != COLVARS_OK) std::cout << " ERR"; else for (int i = 0; i < nd; i++) std::cout << " " << w2[i];
      std::cout << "\n";
      cvm::clear_error();
    } else if (cmd == "OPM") {
      // OPM <spec this> <spec other> : this.map_grid(other)
      gspec a1 = read_spec(a, p), a2 = read_spec(a, p);
      colvar_grid<double> g1, g2; fill_grid(g1, a1); fill_grid(g2, a2);
      cvm::clear_error();
      g1.map_grid(g2);
      if (cvm::get_error() != COLVARS_OK) std::cout << "ERR\n"; else print_grid(g1);
      cvm::clear_error();
    } else if (cmd == "OPE") {
      // OPE <op> <scalar> <spec this> <spec other> : element-wise operations
      std::string op = a[p++]; double c = nf();
      gspec a1 = read_spec(a, p), a2 = read_spec(a, p);
      colvar_grid<double> g1, g2; fill_grid(g1, a1); fill_grid(g2, a2);
      cvm::clear_error();
      if (op == "add") g1.add_grid(g2, c);
      else if (op == "copy") g1.copy_grid(g2);
      else if (op == "delta") g1.delta_grid(g2);
      else if (op == "mul") g1.multiply_constant(c);
      else if (op == "addc") g1.add_constant(c);
      else if (op == "small") g1.remove_small_values(c);
      else if (op == "raw") { std::vector<double> buf(g2.raw_data_num()); g2.raw_data_out(buf.data()); g1.raw_data_in(buf.data()); }
      else if (op == "rawv") { std::vector<double> buf; g2.raw_data_out(buf); g1.raw_data_in(buf); }
      else if (op == "set") { for (std::vector<int> ix = g1.new_index(); g1.index_ok(ix); g1.incr(ix)) for (size_t im = 0; im < g1.mult; im++) g1.set_value(ix, g2.value(ix, im), im); }
      if (cvm::get_error() != COLVARS_OK) std::cout << "ERR\n"; else print_grid(g1);
      cvm::clear_error();
    } else if (cmd == "GWB") {
      // unformatted raw form: bytes of the memory_stream in hex
      gspec sp = read_spec(a, p);
      colvar_grid<double> g; fill_grid(g, sp);
      cvm::memory_stream os; g.write_raw(os);
      std::cout << "X ";
      for (size_t k = 0; k < os.length(); k++) { char b[4]; snprintf(b, 4, "%02x", (unsigned) os.output_buffer()[k]); std::cout << b; }
      std::cout << "\n";
      cvm::clear_error();
    } else if (cmd == "GRB") {
      // GRB <spec of the receiving grid> HEX <bytes> : unformatted read_raw
      gspec sp = read_spec(a, p);
      colvar_grid<double> g; fill_grid(g, sp);
      std::string hx = (a.size() > p + 1 && a[p] == "HEX") ? a[p + 1] : std::string();
      std::vector<unsigned char> buf;
      for (size_t k = 0; k + 1 < hx.size(); k += 2) buf.push_back((unsigned char) strtol(hx.substr(k, 2).c_str(), NULL, 16));
      unsigned char dummy = 0;
      cvm::memory_stream is(buf.size(), buf.size() ? buf.data() : &dummy);
      cvm::clear_error();
      g.read_raw(is);
      bool bad = (!is) || (cvm::get_error() != COLVARS_OK);
      if (bad) std::cout << "ERR\n"; else print_grid(g);
      cvm::clear_error();
    } else if (cmd == "GN") {
      // gradient grid attached to a sample-count grid: GN <spec> C <n> counts.. : the multicolumn file, then the grid read
      // back from it by a second gradient grid attached to the same counts
      gspec sp = read_spec(a, p);
      std::vector<size_t> cnt;
      if (a[p] == "C") { p++; int n = ni(); for (int k = 0; k < n; k++) cnt.push_back((size_t) atol(a[p++].c_str())); }
      std::shared_ptr<colvar_grid_count> samples(new colvar_grid_count());
      samples->setup(sp.nx, 0, 1);
      for (size_t k = 0; k < samples->nt && k < cnt.size(); k++) samples->data[k] = cnt[k];
      colvar_grid_gradient g, g2;
      auto fill = [&](colvar_grid_gradient &gg, bool with_data) {
        gg.setup(sp.nx, 0.0, sp.mult);
        for (int i = 0; i < sp.nd; i++) {
          gg.lower_boundaries.push_back(colvarvalue(sp.lower[i])); gg.upper_boundaries.push_back(colvarvalue(sp.upper[i]));
          gg.widths.push_back(sp.width[i]); gg.periodic.push_back(sp.per[i] != 0);
        }
        if (with_data) for (size_t k = 0; k < gg.nt && k < sp.data.size(); k++) gg.data[k] = sp.data[k];
        gg.samples = samples;
      };
      fill(g, true); fill(g2, false);
      std::ostringstream os; g.write_multicol(os);
      std::istringstream is(os.str());
      cvm::clear_error();
      g2.read_multicol(is, false);
      bool bad = (!is) || (cvm::get_error() != COLVARS_OK);
      std::cout << "T " << bar(os.str()) << " @@ ";
      if (bad) std::cout << "ERR\n"; else print_grid(g2);
      cvm::clear_error();
    } else if (cmd == "DEC") {
      // DEC <p> <x> : x written with p significant digits (scientific, setprecision(p-1); default notation,
      // setprecision(p)) and read back
      int pdig = ni(); double x = nf();
      std::ostringstream o1; o1.setf(std::ios::scientific, std::ios::floatfield); o1 << std::setprecision(pdig - 1) << x;
      std::ostringstream o2; o2 << std::setprecision(pdig) << x;
      double r1 = 0, r2 = 0;
      { std::istringstream i1(o1.str()); i1 >> r1; } { std::istringstream i2(o2.str()); i2 >> r2; }
      std::cout << o1.str() << " " << vs_hex(r1) << " " << o2.str() << " " << vs_hex(r2) << "\n";
    } else if (cmd == "GF") {
      // GF <mult_i> TEXT <file> : constructor from a multicolumn file
      int mult_i = ni();
      std::string fn = "c15_gf.dat";
      { std::ofstream f(fn.c_str()); f << text_arg(line); }
      cvm::clear_error();
      colvar_grid<double> g(fn, size_t(mult_i));
      bool bad = (cvm::get_error() != COLVARS_OK) || !g.has_data;
      if (bad) std::cout << "ERR\n"; else print_grid(g);
      cvm::clear_error();
      proxy->close_input_streams();
      remove(fn.c_str());
    } else if (cmd == "SW" || cmd == "SR") {
      // restart form on grids of real variables.  SW <sspec> : write_restart;  SR <sspec of receiving grid> TEXT <state>
      sspec sp = read_sspec(a, p);
      cvm::clear_error();
      int err = proxy->colvars->read_config_string(cv_config(sp.nd, sp.cl, sp.cu, sp.cw, sp.cp));
      if (err != COLVARS_OK || int(proxy->colvars->variables()->size()) != sp.nd) {
        std::cout << "CONFIG-ERR\n";
      } else {
        bool xb = (a.size() > p && a[p] == "XGRID");
        colvar_grid<double> *g = state_grid(proxy->colvars, sp, xb);
        if (a.size() > p && a[p] == "BDIST") {
          // SW <sspec> BDIST x.. : bin_distance_from_boundaries(values)
          p++;
          std::vector<colvarvalue> xs;
          for (int d = 0; d < sp.nd; d++) xs.push_back(colvarvalue(nf()));
          std::cout << vs_hex(g->bin_distance_from_boundaries(xs)) << " P";
          for (int d = 0; d < sp.nd; d++) std::cout << " " << (g->periodic[d] ? 1 : 0);
          std::cout << "\n";
        } else if (a.size() > p && a[p] == "CUR") {
          // SW <sspec> CUR z.. : the variables are evaluated at z.. (one engine step) and the overloads that take the
          // current values of the variables are called: current_bin_scalar, _bound, _fraction, get_colvars_index(_bound),
          // current_bin_flat_bound
          p++;
          for (int d = 0; d < sp.nd; d++) eng.pos[d] = cvm::rvector(0, 0, nf());
          proxy->step();
          cvm::clear_error();
          std::cout << "V";
          for (int d = 0; d < sp.nd; d++) std::cout << " " << vs_hex(g->cv[d]->value().real_value);
          std::cout << " B";
          for (int d = 0; d < sp.nd; d++) std::cout << " " << g->current_bin_scalar(d);
          std::cout << " BB";
          for (int d = 0; d < sp.nd; d++) std::cout << " " << g->current_bin_scalar_bound(d);
          std::cout << " F";
          for (int d = 0; d < sp.nd; d++) std::cout << " " << vs_hex(g->current_bin_scalar_fraction(d));
          std::vector<int> i1 = g->get_colvars_index(), i2 = g->get_colvars_index_bound();
          std::cout << " I";
          for (int d = 0; d < sp.nd; d++) std::cout << " " << i1[d];
          std::cout << " IB";
          for (int d = 0; d < sp.nd; d++) std::cout << " " << i2[d];
          std::cout << " FLAT " << g->current_bin_flat_bound() << " NX";
          for (int d = 0; d < sp.nd; d++) std::cout << " " << g->nx[d];
          std::cout << " P";
          for (int d = 0; d < sp.nd; d++) std::cout << " " << (g->periodic[d] ? 1 : 0);
          std::cout << "\n";
        } else if (xb || (a.size() > p && a[p] == "GRID")) {
          // only the grid as init_from_colvars/init_from_boundaries/setup leave it
          print_grid(*g);
        } else if (cmd == "SW") {
          std::ostringstream os; os.setf(std::ios::scientific, std::ios::floatfield); os.precision(14);
          g->write_restart(os);
          std::cout << "T " << bar(os.str()) << "\n";
        } else {
          std::istringstream is(text_arg(line));
          cvm::clear_error();
          g->read_restart(is);
          bool bad = (!is) || (cvm::get_error() != COLVARS_OK);
          if (bad) std::cout << "ERR\n"; else {
            // + what the grid read back does one bin past each edge: wrapped index, or -9 when outside (non-periodic)
            std::ostringstream edge;
            edge << " E " << 2 * g->nd;
            for (size_t d = 0; d < g->nd; d++) {
              for (int side = 0; side < 2; side++) {
                std::vector<int> ix(g->nd, 0);
                ix[d] = side ? g->nx[d] : -1;
                bool e = g->wrap_detect_edge(ix);
                edge << " " << ((e || !g->index_ok(ix)) ? -9 : ix[d]);
              }
            }
            std::ostringstream gl; std::streambuf *old = std::cout.rdbuf(gl.rdbuf()); print_grid(*g); std::cout.rdbuf(old);
            std::string gs = gl.str(); if (!gs.empty() && gs[gs.size() - 1] == '\n') gs.erase(gs.size() - 1);
            std::cout << gs << edge.str() << "\n";
          }
        }
        delete g;
      }
      cvm::clear_error();
      proxy->colvars->reset();
      cvm::clear_error();
    } else {
      std::cout << "?\n";
    }
  }
  delete proxy;
  return 0;
}
