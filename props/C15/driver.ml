(* C15 model driver: evaluates the extracted GridModel at floats on case lines from stdin. *)
open Model
open X_fops

let () =
  try
    while true do
      let line = input_line stdin in
      let w = Array.of_list (words line) in
      if Array.length w > 0 then begin
        let p = ref 1 in
        let next () = let s = w.(!p) in Stdlib.incr p; s in
        let nf () = fl (next ()) in
        let ni () = int_of_string (next ()) in
        let nflist n = List.init n (fun _ -> nf ()) in
        let nzlist n = List.init n (fun _ -> z_of_int (ni ())) in
        (match w.(0) with
         | "BIN" ->
           let l = nf () in let wd = nf () in let x = nf () in
           Printf.printf "%d\n" (int_of_z (value_to_bin fops l wd x))
         | "WRAP" ->
           let c = nf () in let pp = nf () in let x = nf () in
           Printf.printf "%s\n" (hex (wrap fops true c pp x))
         | "ADDR" ->
           let mult = ni () in let nd = ni () in
           let nx = nzlist nd in let ix = nzlist nd in
           if index_ok nx ix then Printf.printf "ok %d\n" (int_of_z (address (z_of_int mult) nx ix))
           else Printf.printf "out\n"
         | "INCR" ->
           let nd = ni () in let nx = nzlist nd in let ix = nzlist nd in
           let r = Model.incr nx ix in
           Printf.printf "%s %s\n" (if index_ok nx r then "ok" else "end")
             (String.concat " " (List.map (fun z -> string_of_int (int_of_z z)) r))
         | "NBINS" ->
           let l = nf () in let u = nf () in let wd = nf () in
           Printf.printf "%d\n" (int_of_z (nbins_round fops l u wd))
         | "REMAP" ->
           (* REMAP nd nxA.. nxB.. lowerA.. lowerB.. width.. periodic.. dataA.. *)
           let nd = ni () in
           let nxa = List.init nd (fun _ -> ni ()) in let nxb = nzlist nd in
           let la = nflist nd in let lb = nflist nd in let wd = nflist nd in
           let per = List.init nd (fun _ -> ni () <> 0) in
           let nta = List.fold_left ( * ) 1 nxa in
           let data = nflist nta in
           (* records in the order write_multicol emits them: incr order of the source grid *)
           let rec idx k dims = match dims with [] -> [] | _ ->
             let rec go k ds = match ds with [] -> [] | d :: r -> let rest = List.fold_left ( * ) 1 r in (k / rest) :: go (k mod rest) r in go k dims in
           let recs = List.mapi (fun k v ->
               let ix = idx k nxa in
               let x = List.map2 (fun (l, w) i -> bin_to_value fops l w (z_of_int i)) (List.combine la wd) ix in
               (x, v)) data in
           let g = { g_lower = lb; g_width = wd; g_nx = nxb; g_per = per } in
           Printf.printf "%s\n" (String.concat " " (List.map hex (remap fops g recs)))
         | "HIST" ->
           let vm = ni () <> 0 in let sz = ni () <> 0 in let nd = ni () in
           let lower = nflist nd in let width = nflist nd in let nx = nzlist nd in
           let c = { h_lower = lower; h_width = width; h_nx = nx; h_step_zero_data = sz } in
           let nsteps = ni () in
           let steps = List.init nsteps (fun _ ->
               let rel = ni () in let cont = ni () <> 0 in let ns = ni () in
               let nv () =
                 let t = next () in
                 if t = "W" then begin
                   let per = ni () <> 0 in let c = nf () in let pp = nf () in let x = nf () in
                   wrap fops per c pp x end
                 else fl t in
               let vals = List.init ns (fun _ -> let v = List.init nd (fun _ -> nv ()) in let wt = nf () in (v, wt)) in
               { hi_rel = z_of_int rel; hi_cont = cont; hi_vals = vals }) in
           let data = hist_run fops vm c steps in
           Printf.printf "%s\n" (String.concat " " (List.map hex data))
         | _ -> Printf.printf "?\n")
      end
    done
  with End_of_file -> ()
