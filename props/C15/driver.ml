(* C15 model driver: evaluates the extracted GridModel at floats on case lines from stdin. *)
open Model
open X_fops


(* ---- grid files: tokens as words  N:<float> I:<int> # NL K:<keyword> { } B ---- *)
let key_names = [ (KGridParams, "grid_parameters"); (KNColvars, "n_colvars"); (KLower, "lower_boundaries");
                  (KUpper, "upper_boundaries"); (KWidths, "widths"); (KSizes, "sizes") ]
let tok_str (t : float tok) : string = match t with
  | TNum x -> "N:" ^ hex x | TInt n -> "I:" ^ string_of_int (int_of_z n) | THash -> "#" | TNl -> "NL"
  | TKey k -> "K:" ^ List.assoc k key_names | TOpen -> "{" | TClose -> "}" | TBad -> "B"
let tok_of (s : string) : float tok =
  if s = "#" then THash else if s = "NL" then TNl else if s = "{" then TOpen else if s = "}" then TClose
  else if s = "B" then TBad
  else if String.length s > 2 && String.sub s 0 2 = "N:" then TNum (fl (String.sub s 2 (String.length s - 2)))
  else if String.length s > 2 && String.sub s 0 2 = "I:" then TInt (z_of_int (int_of_string (String.sub s 2 (String.length s - 2))))
  else if String.length s > 2 && String.sub s 0 2 = "K:" then
    (let n = String.sub s 2 (String.length s - 2) in
     match List.filter (fun (_, m) -> m = n) key_names with (k, _) :: _ -> TKey k | [] -> TBad)
  else TBad
let rec nat_of_int n = if n <= 0 then O else S (nat_of_int (n - 1))
let print_toks l = Printf.printf "T %s\n" (String.concat " " (List.map tok_str l))
let print_grid (g : float grid) =
  let fl_list tag l = Printf.sprintf " %s %d%s" tag (List.length l) (String.concat "" (List.map (fun x -> " " ^ hex x) l)) in
  Printf.printf "G %d %d%s%s%s%s P %d%s%s\n" (int_of_z g.gr_mult) (List.length g.gr_nx)
    (String.concat "" (List.map (fun z -> " " ^ string_of_int (int_of_z z)) g.gr_nx))
    (fl_list "L" g.gr_lower) (fl_list "U" g.gr_upper) (fl_list "W" g.gr_width)
    (List.length g.gr_per) (String.concat "" (List.map (fun b -> if b then " 1" else " 0") g.gr_per))
    (fl_list "D" g.gr_data)

let () =
  try
    while true do
      let line = input_line stdin in
      let w = Array.of_list (words line) in
      if Array.length w > 0 then begin
        let p = ref 1 in
        let next () = let s = w.(!p) in Stdlib.incr p; s in
        let nf () = fl (next ()) in
        let ni () = int_of_string (next ()) in
        let nflist n = List.init n (fun _ -> nf ()) in
        let nzlist n = List.init n (fun _ -> z_of_int (ni ())) in
        (match w.(0) with
         | "BIN" ->
           let l = nf () in let wd = nf () in let x = nf () in
           Printf.printf "%d\n" (int_of_z (value_to_bin fops l wd x))
         | "WRAP" ->
           let c = nf () in let pp = nf () in let x = nf () in
           Printf.printf "%s\n" (hex (wrap fops true c pp x))
         | "ADDR" ->
           let mult = ni () in let nd = ni () in
           let nx = nzlist nd in let ix = nzlist nd in
           if index_ok nx ix then Printf.printf "ok %d\n" (int_of_z (address (z_of_int mult) nx ix))
           else Printf.printf "out\n"
         | "INCR" ->
           let nd = ni () in let nx = nzlist nd in let ix = nzlist nd in
           let r = Model.incr nx ix in
           Printf.printf "%s %s\n" (if index_ok nx r then "ok" else "end")
             (String.concat " " (List.map (fun z -> string_of_int (int_of_z z)) r))
         | "NBINS" ->
           let l = nf () in let u = nf () in let wd = nf () in
           Printf.printf "%d\n" (int_of_z (nbins_round fops l u wd))
         | "REMAP" ->
           (* REMAP nd nxA.. nxB.. lowerA.. lowerB.. width.. periodic.. dataA.. *)
           let nd = ni () in
           let nxa = List.init nd (fun _ -> ni ()) in let nxb = nzlist nd in
           let la = nflist nd in let lb = nflist nd in let wd = nflist nd in
           let per = List.init nd (fun _ -> ni () <> 0) in
           let nta = List.fold_left ( * ) 1 nxa in
           let data = nflist nta in
           (* records in the order write_multicol emits them: incr order of the source grid *)
           let rec idx k dims = match dims with [] -> [] | _ ->
             let rec go k ds = match ds with [] -> [] | d :: r -> let rest = List.fold_left ( * ) 1 r in (k / rest) :: go (k mod rest) r in go k dims in
           let recs = List.mapi (fun k v ->
               let ix = idx k nxa in
               let x = List.map2 (fun (l, w) i -> bin_to_value fops l w (z_of_int i)) (List.combine la wd) ix in
               (x, v)) data in
           let g = { g_lower = lb; g_width = wd; g_nx = nxb; g_per = per } in
           Printf.printf "%s\n" (String.concat " " (List.map hex (remap fops g recs)))
         | "HIST" ->
           let vm = ni () <> 0 in let sz = ni () <> 0 in let nd = ni () in
           let lower = nflist nd in let width = nflist nd in let nx = nzlist nd in
           let c = { h_lower = lower; h_width = width; h_nx = nx; h_step_zero_data = sz } in
           let nsteps = ni () in
           let steps = List.init nsteps (fun _ ->
               let rel = ni () in let cont = ni () <> 0 in let ns = ni () in
               let nv () =
                 let t = next () in
                 if t = "W" then begin
                   let per = ni () <> 0 in let c = nf () in let pp = nf () in let x = nf () in
                   wrap fops per c pp x end
                 else fl t in
               let vals = List.init ns (fun _ -> let v = List.init nd (fun _ -> nv ()) in let wt = nf () in (v, wt)) in
               { hi_rel = z_of_int rel; hi_cont = cont; hi_vals = vals }) in
           let data = hist_run fops vm c steps in
           Printf.printf "%s\n" (String.concat " " (List.map hex data))
         | "OPB" ->
           let nd = ni () in let nx = nzlist nd in let lower = nflist nd in let width = nflist nd in
           let per = List.init nd (fun _ -> ni () <> 0) in let xs = nflist nd in
           let parts = List.mapi (fun i x ->
               let l = List.nth lower i and wd = List.nth width i and n = List.nth nx i and pp = List.nth per i in
               Printf.sprintf "%d %d %s" (int_of_z (value_to_bin fops l wd x)) (int_of_z (value_to_bin_bound fops pp l wd n x))
                 (hex (bin_fraction fops l wd x))) xs in
           Printf.printf "%s I%s\n" (String.concat " " parts)
             (String.concat "" (List.map (fun z -> " " ^ string_of_int (int_of_z z)) (bins fops lower width xs)))
         | "OPW" ->
           let nd = ni () in let nx = nzlist nd in let per = List.init nd (fun _ -> ni () <> 0) in let ix = nzlist nd in
           let ((r, e), edge) = wrap_to_edge per nx ix in
           let zs l = String.concat " " (List.map (fun z -> string_of_int (int_of_z z)) l) in
           Printf.printf "%s E %s %d W %s\n" (zs r) (zs e) (if edge then 1 else 0)
             (match wrap_strict per nx ix with Some w2 -> zs w2 | None -> "ERR")
         | "OPM" | "OPE" ->
           let op = if w.(0) = "OPE" then next () else "map" in
           let c = if w.(0) = "OPE" then nf () else 0.0 in
           let rd () =
             let mult = ni () in let nd = ni () in
             let nx = nzlist nd in let lower = nflist nd in let upper = nflist nd in let width = nflist nd in
             let per = List.init nd (fun _ -> ni () <> 0) in
             let n = ni () in let data = nflist n in
             { gr_mult = z_of_int mult; gr_nx = nx; gr_lower = lower; gr_upper = upper; gr_width = width; gr_per = per; gr_data = data } in
           let g1 = rd () in let g2 = rd () in
           let bad = (g1.gr_mult <> g2.gr_mult && (op = "map" || op = "add" || op = "copy" || op = "delta"))
                     || (List.length g1.gr_data <> List.length g2.gr_data && (op = "copy" || op = "delta")) in
           if bad then Printf.printf "ERR\n" else begin
             let d = match op with
               | "map" -> map_grid fops g1 g2
               | "add" -> add_grid fops c g1.gr_data g2.gr_data
               | "copy" | "raw" | "rawv" | "set" -> g2.gr_data
               | "delta" -> delta_grid fops g1.gr_data g2.gr_data
               | "mul" -> multiply_constant fops c g1.gr_data
               | "addc" -> add_constant fops c g1.gr_data
               | "small" -> remove_small_values fops c g1.gr_data
               | _ -> [] in
             print_grid { g1 with gr_data = d }
           end
         | "BDIST" ->
           (* BDIST nd per.. lower.. upper.. width.. x.. *)
           let nd = ni () in let per = List.init nd (fun _ -> ni () <> 0) in
           let lower = nflist nd in let upper = nflist nd in let width = nflist nd in let xs = nflist nd in
           Printf.printf "%s\n" (hex (bin_distance_from_boundaries fops per lower upper width xs))
         | "XBIN" ->
           (* XBIN nd {l u w period}.. : sizes, boundaries and flags of the grid shifted by half a bin (add_extra_bin) *)
           let nd = ni () in
           let dims = List.init nd (fun _ -> let l = nf () in let u = nf () in let wd = nf () in let pp = nf () in (l, u, wd, pp)) in
           let res = List.map (fun (l, u, wd, pp) ->
               let c = { cv_period = pp; cv_width = wd } in
               let ((_, _), per0) = init_dim fops c l u wd in
               let (l', u') = extra_bin_dim fops per0 l u wd in
               let ((n, u''), per1) = init_dim fops c l' u' wd in
               Printf.sprintf "%d %s %s %d" (int_of_z n) (hex l') (hex u'') (if per1 then 1 else 0)) dims in
           Printf.printf "%s\n" (String.concat " " res)
         | "DEC" ->
           let pd = ni () in let x = nf () in
           Printf.printf "%s\n" (hex (dec_round fops (nat_of_int pd) (nat_of_int 400) x))
         | "NORM" ->
           (* NORM m nc counts.. nd data.. : normalised data, then denormalised(normalised) *)
           let m = ni () in let nc = ni () in let counts = nflist nc in let n = ni () in let data = nflist n in
           let nm = normalise fops (nat_of_int m) counts data in
           let dn = denormalise fops (nat_of_int m) counts nm in
           Printf.printf "%s @@ %s\n" (String.concat " " (List.map hex nm)) (String.concat " " (List.map hex dn))
         | "HISTV" ->
           (* HISTV stepzero nd lower.. width.. nx.. size weights.. nsteps {rel cont vars(nd x size)..} : gathered vectors *)
           let sz = ni () <> 0 in let nd = ni () in
           let lower = nflist nd in let width = nflist nd in let nx = nzlist nd in
           let size = ni () in let weights = nflist size in
           let c = { h_lower = lower; h_width = width; h_nx = nx; h_step_zero_data = sz } in
           let nsteps = ni () in
           let steps = List.init nsteps (fun _ ->
               let rel = ni () in let cont = ni () <> 0 in
               let vars = List.init nd (fun _ -> nflist size) in
               { hi_rel = z_of_int rel; hi_cont = cont; hi_vals = gather fops vars weights }) in
           Printf.printf "%s\n" (String.concat " " (List.map hex (hist_run fops true c steps)))
         | "WRITE" | "READ" ->
           let fmt = next () in
           let buf = if w.(0) = "WRITE" && (fmt = "raw" || fmt = "rawg") then ni () else 3 in
           let add = if w.(0) = "READ" && fmt = "multicol" then ni () <> 0 else false in
           let mult_i = if fmt = "file" then ni () else 0 in
           let toks_after () =
             (* tokens after the word TOKS *)
             let rec find i = if i >= Array.length w then i else if w.(i) = "TOKS" then i + 1 else find (i + 1) in
             let i0 = find !p in
             List.map tok_of (Array.to_list (Array.sub w i0 (Array.length w - i0))) in
           let out r = (match r with Some (g, _) -> print_grid g | None -> Printf.printf "ERR\n") in
           if fmt = "file" then out (grid_from_multicol fops (z_of_int mult_i) (toks_after ()))
           else if fmt = "state" then begin
             let mult = ni () in let nd = ni () in
             let cvd = List.init nd (fun _ -> let l = nf () in let u = nf () in let wd = nf () in let pp = nf () in (l, u, wd, pp)) in
             let gd = List.init nd (fun _ -> let l = nf () in let u = nf () in let wd = nf () in (l, u, wd)) in
             let n = ni () in let data = nflist n in
             let cvs = List.map (fun (_, _, wd, pp) -> { cv_period = pp; cv_width = wd }) cvd in
             let gl = List.map (fun (l, _, _) -> l) gd and gu = List.map (fun (_, u, _) -> u) gd
             and gw = List.map (fun (_, _, x) -> x) gd in
             (* the grid as init_from_boundaries + setup leave it *)
             let ib = init_bounds fops cvs gl gu gw in
             let nx = List.map (fun ((n, _), _) -> n) ib in
             let nt = int_of_z (ntot (z_of_int mult) nx) in
             let data = List.init nt (fun k -> if k < List.length data then List.nth data k else 0.0) in
             let g = { gr_mult = z_of_int mult; gr_nx = nx; gr_lower = gl; gr_upper = List.map (fun ((_, u), _) -> u) ib;
                       gr_width = gw; gr_per = List.map snd ib; gr_data = data } in
             if !p < Array.length w && w.(!p) = "GRID" then print_grid g
             else if w.(0) = "WRITE" then print_toks (write_restart g)
             else (match read_restart fops cvs g (toks_after ()) with
                   | None -> Printf.printf "ERR\n"
                   | Some (g1, _) ->
                     (* + one bin past each edge of the grid read back: wrapped index, or -9 when outside *)
                     let nd1 = List.length g1.gr_nx in
                     let probes = List.concat (List.init nd1 (fun d ->
                         List.map (fun side ->
                             let ix = List.mapi (fun k n -> if k = d then (if side then n else z_of_int (-1)) else z_of_int 0) g1.gr_nx in
                             let wx = wrap_index g1.gr_per g1.gr_nx ix in
                             if index_ok g1.gr_nx wx then int_of_z (List.nth wx d) else -9) [false; true])) in
                     let buf = Buffer.create 256 in
                     let fl_list tag l = Printf.sprintf " %s %d%s" tag (List.length l) (String.concat "" (List.map (fun x -> " " ^ hex x) l)) in
                     Buffer.add_string buf (Printf.sprintf "G %d %d%s%s%s%s P %d%s%s" (int_of_z g1.gr_mult) nd1
                       (String.concat "" (List.map (fun z -> " " ^ string_of_int (int_of_z z)) g1.gr_nx))
                       (fl_list "L" g1.gr_lower) (fl_list "U" g1.gr_upper) (fl_list "W" g1.gr_width)
                       (List.length g1.gr_per) (String.concat "" (List.map (fun b -> if b then " 1" else " 0") g1.gr_per))
                       (fl_list "D" g1.gr_data));
                     Printf.printf "%s E %d%s\n" (Buffer.contents buf) (List.length probes)
                       (String.concat "" (List.map (fun i -> " " ^ string_of_int i) probes)))
           end else begin
             let mult = ni () in let nd = ni () in
             let nx = nzlist nd in let lower = nflist nd in let upper = nflist nd in let width = nflist nd in
             let per = List.init nd (fun _ -> ni () <> 0) in
             let n = ni () in let data = nflist n in
             let g = { gr_mult = z_of_int mult; gr_nx = nx; gr_lower = lower; gr_upper = upper; gr_width = width;
                       gr_per = per; gr_data = data } in
             if w.(0) = "WRITE" then begin
               match fmt with
               | "multicol" -> print_toks (write_multicol fops g)
               | "raw" | "rawg" -> print_toks (write_raw (nat_of_int buf) g)
               | "rawbin" -> print_toks (write_raw_bin g)
               | "dx" ->
                 Printf.printf "DX counts%s origin%s delta%s\n"
                   (String.concat "" (List.map (fun z -> " " ^ string_of_int (int_of_z z)) nx))
                   (String.concat "" (List.map (fun x -> " " ^ hex x) (dx_origin fops lower width)))
                   (String.concat "" (List.map (fun x -> " " ^ hex x) (List.concat (dx_delta fops width))))
               | _ -> Printf.printf "?\n"
             end else begin
               match fmt with
               | "multicol" -> out (read_multicol fops add g (toks_after ()))
               | "raw" -> out (read_raw fops g (toks_after ()))
               | "rawbin" -> out (read_raw_bin fops g (toks_after ()))
               | _ -> Printf.printf "?\n"
             end
           end
         | _ -> Printf.printf "?\n")
      end
    done
  with End_of_file -> ()
