# C15: every sample lands in exactly one grid bin; grid files round-trip.
import glob, os, sys, json, math, re
from fractions import Fraction as Fr
import vcommon as V
import gridio

PROP = "coq/C15/Properties_C15.v"


def fr(x):
    return Fr(x)  # exact value of a double


def floor_fr(q):
    return q.numerator // q.denominator


# ---------------------------------------------------------------- unit-level cases
def gen_unit(r, n):
    cases = []
    widths = [1.0, 0.5, 0.25, 0.125, 2.0, 0.75, 1.5, 0.375]
    for k in range(n):
        kind = r.choice(["BIN", "BIN", "BIN", "ADDR", "ADDR", "INCR", "INCR", "RT", "REMAP", "REMAP"])
        if kind == "BIN":
            l = V.dyadic(r, -8, 8)
            w = r.choice(widths)
            mode = r.random()
            if mode < 0.45:      # exactly on a bin edge (both sides of zero, far outside too)
                x = l + r.randint(-12, 40) * w
            elif mode < 0.52:    # in the open strip one bin wide below the lower boundary (floor -1, truncation 0)
                x = l - r.randint(1, 7) * w / 8
            elif mode < 0.6:     # just next to an edge
                x = l + r.randint(-12, 40) * w + r.choice([-1, 1]) * 2.0 ** -10
            else:
                x = V.dyadic(r, -20, 40, bits=10)
            cases.append("BIN %s %s %s" % (V.hexf(l), V.hexf(w), V.hexf(x)))
        elif kind in ("ADDR", "INCR"):
            nd = r.randint(1, 3)
            nx = [r.randint(1, 5) for _ in range(nd)]
            if kind == "ADDR":
                mult = r.randint(1, 3)
                ix = [r.randint(-1, n_) for n_ in nx]
                cases.append("ADDR %d %d %s %s" % (mult, nd, " ".join(map(str, nx)), " ".join(map(str, ix))))
            else:
                if r.random() < 0.3:   # aim at carries / the last index
                    ix = [n_ - 1 for n_ in nx]
                    for j in range(r.randint(0, nd - 1)):   # keep a suffix of maximal indices
                        ix[j] = r.randint(0, nx[j] - 1)
                else:
                    ix = [r.randint(0, n_ - 1) for n_ in nx]
                    if r.random() < 0.5:
                        ix[-1] = nx[-1] - 1
                cases.append("INCR %d %s %s" % (nd, " ".join(map(str, nx)), " ".join(map(str, ix))))
        elif kind == "REMAP":
            # a multicolumn file written on grid A read into grid B (same widths; lower boundary shifted,
            # periodic dimensions by whole or half bins, possibly by more than one period; sizes may differ
            # in non-periodic dimensions)
            nd = r.randint(1, 3)
            nxa = [r.randint(1, 5) for _ in range(nd)]
            per = [r.randint(0, 1) for _ in range(nd)]
            wd = [r.choice([1.0, 0.5, 0.25, 2.0]) for _ in range(nd)]
            la = [V.dyadic(r, -4, 4, bits=2) for _ in range(nd)]
            nxb, lb = [], []
            for d in range(nd):
                if per[d]:
                    nxb.append(nxa[d])
                    lb.append(la[d] + r.randint(-2 * nxa[d], 2 * nxa[d]) * wd[d])
                else:
                    nxb.append(r.randint(1, 5))
                    lb.append(la[d] + r.randint(-3, 3) * wd[d])
            nt = 1
            for n_ in nxa:
                nt *= n_
            data = [float(r.randint(1, 999)) for _ in range(nt)]
            cases.append("REMAP %d %s %s %s %s %s %s %s" % (nd, " ".join(map(str, nxa)), " ".join(map(str, nxb)),
                         " ".join(map(V.hexf, la)), " ".join(map(V.hexf, lb)), " ".join(map(V.hexf, wd)),
                         " ".join(map(str, per)), " ".join(map(V.hexf, data))))
        else:
            nd = r.randint(1, 3)
            nx = [r.randint(1, 4) for _ in range(nd)]
            mult = r.choice([1, 1, 2, 3])
            nt = mult
            for n_ in nx:
                nt *= n_
            lower = [V.dyadic(r, -4, 4) for _ in range(nd)]
            wd = [r.choice(widths) for _ in range(nd)]
            per = [r.randint(0, 1) for _ in range(nd)]
            data = [V.dyadic(r, -1000, 1000) for _ in range(nt)]
            fmt = r.choice(["multicol", "raw", "binary"])
            cases.append("RT %s %d %d %s %s %s %s %s" % (fmt, mult, nd, " ".join(map(str, nx)),
                         " ".join(map(V.hexf, lower)), " ".join(map(V.hexf, wd)), " ".join(map(str, per)),
                         " ".join(map(V.hexf, data))))
    return cases


def oracle_unit(case, impl):
    """property oracle on the implementation alone; returns None or a description of the failure"""
    w = case.split()
    if w[0] == "BIN":
        l, wd, x = [fr(float.fromhex(t)) for t in w[1:4]]
        try:
            i = int(impl)
        except ValueError:
            return "no bin index returned"
        if not (l + i * wd <= x < l + (i + 1) * wd):
            return "value %s assigned to bin %d = [%s, %s) which does not contain it" % (float(x), i, float(l + i * wd), float(l + (i + 1) * wd))
    elif w[0] == "ADDR":
        mult, nd = int(w[1]), int(w[2])
        nx = list(map(int, w[3:3 + nd])); ix = list(map(int, w[3 + nd:3 + 2 * nd]))
        inr = all(0 <= i < n for i, n in zip(ix, nx))
        if inr != impl.startswith("ok"):
            return "index_ok(%s) on sizes %s returned %s" % (ix, nx, impl)
        if inr:
            a = 0
            for i, n in zip(ix, nx):
                a = a * n + i
            if int(impl.split()[1]) != a * mult:
                return "address(%s) on sizes %s mult %d is %s, row-major position is %d" % (ix, nx, mult, impl, a * mult)
    elif w[0] == "INCR":
        nd = int(w[1])
        nx = list(map(int, w[2:2 + nd])); ix = list(map(int, w[2 + nd:2 + 2 * nd]))
        a = 0
        for i, n in zip(ix, nx):
            a = a * n + i
        nt = 1
        for n in nx:
            nt *= n
        out = impl.split()
        if a + 1 < nt:
            jx = list(map(int, out[1:]))
            b = 0
            for i, n in zip(jx, nx):
                b = b * n + i
            if out[0] != "ok" or b != a + 1 or not all(0 <= i < n for i, n in zip(jx, nx)):
                return "incr(%s) on sizes %s gave %s: not the next index in address order" % (ix, nx, impl)
        else:
            if out[0] != "end":
                return "incr of the last index %s on sizes %s stays in range (%s)" % (ix, nx, impl)
    elif w[0] == "REMAP":
        nd = int(w[1]); p = 2
        nxa = list(map(int, w[p:p + nd])); p += nd
        nxb = list(map(int, w[p:p + nd])); p += nd
        la = [fr(float.fromhex(t)) for t in w[p:p + nd]]; p += nd
        lb = [fr(float.fromhex(t)) for t in w[p:p + nd]]; p += nd
        wd = [fr(float.fromhex(t)) for t in w[p:p + nd]]; p += nd
        per = list(map(int, w[p:p + nd])); p += nd
        data = [float.fromhex(t) for t in w[p:]]
        ntb = 1
        for n in nxb:
            ntb *= n
        exp = [0.0] * ntb
        k = 0
        import itertools
        for ix in itertools.product(*[range(n) for n in nxa]):
            tgt = []
            ok = True
            for d in range(nd):
                x = la[d] + wd[d] * (Fr(1, 2) + ix[d])
                i = floor_fr((x - lb[d]) / wd[d])
                if per[d]:
                    i = i % nxb[d]          # the bin that contains x modulo the period
                if not (0 <= i < nxb[d]):
                    ok = False
                tgt.append(i)
            if ok:
                a = 0
                for i, n in zip(tgt, nxb):
                    a = a * n + i
                exp[a] = data[k]
            k += 1
        try:
            got = [float.fromhex(t) for t in impl.split()]
        except ValueError:
            got = None
        if got != exp:
            return "a grid written in multicolumn form on lower boundaries %s and read into the grid on %s (periodic %s) gives %s; every value belongs in the bin containing its centre (modulo the period): %s" % (
                [float(x) for x in la], [float(x) for x in lb], per, got, exp)
    elif w[0] == "RT":
        if not impl.startswith("same"):
            return "grid written in %s form and read back differs (%s)" % (w[1], impl)
    return None


def remap_class(case):
    """far = some periodic dimension of the receiving grid starts more than one period above the file's grid"""
    w = case.split(); nd = int(w[1]); p = 2
    nxa = list(map(int, w[p:p + nd])); p += 2 * nd
    la = [float.fromhex(t) for t in w[p:p + nd]]; p += nd
    lb = [float.fromhex(t) for t in w[p:p + nd]]; p += nd
    wd = [float.fromhex(t) for t in w[p:p + nd]]; p += nd
    per = list(map(int, w[p:p + nd]))
    far = any(per[d] and (lb[d] - la[d]) / wd[d] > nxa[d] for d in range(nd))
    return "periodic-more-than-one-period-below" if far else "general"


# ---------------------------------------------------------------- histogram scenarios
def gen_hist(r, k):
    nd = r.choice([1, 1, 2, 2, 3])
    widths = [1.0, 0.5, 0.25, 2.0, 0.75]
    vars_ = []
    for d in range(nd):
        v = {}
        v["periodic"] = r.random() < 0.4
        v["w"] = r.choice(widths)
        v["nx"] = r.randint(1, 6)
        if v["periodic"]:
            v["P"] = v["w"] * v["nx"]
            v["c"] = V.dyadic(r, -3, 3, bits=2)
            # the grid spans the period; it starts at the lower end of the variable's wrapping interval or a few bins
            # away from it (then part of the wrapped values lie outside the grid: no bin)
            v["lower"] = v["c"] - v["P"] / 2 + r.choice([0, 0, 0, 1, -1, 2]) * v["w"]
        else:
            v["lower"] = V.dyadic(r, -4, 4, bits=3)
        v["upper"] = v["lower"] + v["w"] * v["nx"]
        v["custom"] = (not v["periodic"]) and r.random() < 0.3
        vars_.append(v)
    stepzero = r.random() < 0.3
    nsteps = r.randint(6, 20)
    events = []   # (kind, [z values]); kind False = ordinary step, True = run boundary in the same process (the step is
                  # re-evaluated with simulation_continuing), "r" = restart: state saved, fresh instance, state loaded, and
                  # the step the state was written at is evaluated again (step_relative 0, step_absolute > 0)
    for s in range(nsteps):
        zs = []
        for v in vars_:
            m = r.random()
            span = v["w"] * v["nx"]
            if m < 0.35:     # exactly on a bin edge (including the two boundaries)
                z = v["lower"] + r.randint(-2, v["nx"] + 2) * v["w"]
            elif m < 0.85:   # inside the grid
                z = v["lower"] + r.randint(0, v["nx"] * 8 - 1) * v["w"] / 8 + v["w"] / 16
            elif m < 0.93 and not v["periodic"]:   # just outside: within two bin widths of either boundary
                z = (v["lower"] - r.randint(1, 15) * v["w"] / 8) if r.random() < 0.6 else (v["lower"] + span + r.randint(0, 15) * v["w"] / 8)
            else:            # outside
                z = v["lower"] + r.choice([-1, 1]) * (span + r.randint(1, 40) * v["w"] / 8) + (span if r.random() < .5 else 0)
            if v["periodic"] and r.random() < 0.5:
                z += r.randint(-3, 3) * v["P"]
            zs.append(z)
        boundary = (s > 0) and r.random() < 0.15
        if (s > 0) and not boundary and r.random() < 0.12:
            boundary = "r"
            zs = list(events[-1][1])   # a restart re-evaluates the configuration the state was written at
        events.append((boundary, zs))
    c = {"vars": vars_, "stepzero": stepzero, "events": events, "id": k}
    # absolute step numbers beyond 32 and 53 bits; a second histogram on the same variables that is deleted on the way;
    # a configuration that is rejected in the middle of the session
    c["step0"] = r.choice([0, 0, 2 ** 31 - 3, 2 ** 32 + 5, 2 ** 53 - 2, 2 ** 62])
    c["tsf"] = r.choice([1, 1, 1, 2, 3, 5, 7])      # timeStepFactor: the bias sleeps unless the absolute step is a multiple
    c["second"] = r.choice([None, None, "first", "last"])
    c["delete_at"] = r.randint(1, nsteps - 1)
    c["bad_config_at"] = r.randint(1, nsteps - 1) if r.random() < 0.3 else None
    return c


def hist_cfg_without_h2(cfg, h2):
    """the configuration block without the lines of the second histogram (contiguous sub-list h2)"""
    for k in range(len(cfg) - len(h2) + 1):
        if cfg[k:k + len(h2)] == h2:
            return cfg[:k] + cfg[k + len(h2):]
    return cfg


def hist_scenario(c, statefile):
    L = ["natoms %d" % len(c["vars"]), "prefix hout%d" % c["id"], "new", "config EOF"]
    for d, v in enumerate(c["vars"]):
        L += ["colvar {", "  name v%d" % d]
        # boundaries on the colvar (always; a custom grid block overrides them)
        lo, up, w = v["lower"], v["upper"], v["w"]
        if v["custom"]:
            L += ["  lowerBoundary %r" % (lo - 1.0), "  upperBoundary %r" % (up + 2.0), "  width %r" % (w * 2)]
        else:
            L += ["  lowerBoundary %r" % lo, "  upperBoundary %r" % up, "  width %r" % w]
        L += ["  distanceZ {", "    main { atomNumbers %d }" % (d + 1), "    ref { dummyAtom (0,0,0) }", "    axis (0,0,1)"]
        if v["periodic"]:
            L += ["    period %r" % v["P"], "    wrapAround %r" % v["c"]]
        L += ["  }", "}"]
    h2 = ["histogram {", "  name h2", "  colvars " + " ".join("v%d" % d for d in range(len(c["vars"]))), "  outputFile none",
          "  histogramGrid {", "    width " + " ".join("%r" % (v["w"] * 2) for v in c["vars"]), "  }", "}"]
    if c.get("second") == "first":
        L += h2
    L += ["histogram {", "  name h", "  colvars " + " ".join("v%d" % d for d in range(len(c["vars"])))]
    if c.get("tsf", 1) > 1:
        L += ["  timeStepFactor %d" % c["tsf"]]
    if c["stepzero"]:
        L += ["  stepZeroData on"]
    L += ["  outputFileDX hout%d.h.dx" % c["id"]]
    if any(v["custom"] for v in c["vars"]):
        L += ["  histogramGrid {",
              "    lowerBoundary " + " ".join("%r" % v["lower"] for v in c["vars"]),
              "    upperBoundary " + " ".join("%r" % v["upper"] for v in c["vars"]),
              "    width " + " ".join("%r" % v["w"] for v in c["vars"]), "  }"]
    L += ["}"]
    if c.get("second") == "last":
        L += h2
    L += ["EOF", "show atomf 0 energy 0 bias 0"]
    cfg = L[L.index("config EOF"):L.index("EOF") + 1]
    if c.get("step0"):
        L.append("setstep %d" % c["step0"])
    nrest = 0
    deleted = not c.get("second")
    for ne, (boundary, zs) in enumerate(c["events"]):
        for d, z in enumerate(zs):
            L.append("pos %d 0 0 %s" % (d + 1, V.hexf(z)))
        if c.get("second") and not deleted and ne == c.get("delete_at"):
            L.append("script cv bias h2 delete")
            deleted = True
        if c.get("bad_config_at") == ne:
            L += ["config EOF", "histogram {", "  name hbad", "  colvars v0", "  gatherVectorColvars on", "}", "EOF"]
        if boundary == "r":
            nrest += 1
            rf = "%s.r%d" % (statefile, nrest)
            # the state travels as a formatted file, an unformatted file, an unformatted memory buffer or a formatted string
            how = (c["id"] + nrest) % 4
            L += ["save %s %s" % ("binary" if how in (1, 2) else "text", rf), "fresh"] + (cfg if not deleted else hist_cfg_without_h2(cfg, h2)) + \
                 [("load %s", "load %s", "loadbuf %s", "loadstr %s")[how] % rf]
        elif boundary:
            L.append("runboundary")
        L.append("step")
    L.append("save text %s" % statefile)
    L.append("postrun")          # writes the histogram's multicolumn and OpenDX files
    return "\n".join(L) + "\n"


def hist_model_case(c):
    nd = len(c["vars"])
    parts = ["HIST", "0", "1" if c["stepzero"] else "0", str(nd)]
    parts += [V.hexf(v["lower"]) for v in c["vars"]]
    parts += [V.hexf(v["w"]) for v in c["vars"]]
    parts += [str(v["nx"]) for v in c["vars"]]
    parts += [str(len(c["events"]))]
    rel = 0
    first = True
    ab = c.get("step0", 0)
    for boundary, zs in c["events"]:
        if first:
            first = False
        elif boundary == "r":
            rel = 0
        elif not boundary:
            rel += 1
            ab += 1
        if ab % c.get("tsf", 1) != 0:
            parts += [str(rel), "1" if boundary is True else "0", "0"]      # the bias sleeps at this step: update() is not called
            continue
        parts += [str(rel), "1" if boundary is True else "0", "1"]
        parts += ["W %d %s %s %s" % (1 if v["periodic"] else 0, V.hexf(v.get("c", 0.0)), V.hexf(v.get("P", 1.0)), V.hexf(z))
                  for v, z in zip(c["vars"], zs)]
        parts += [V.hexf(1.0)]
    return " ".join(parts)


def hist_oracle(c):
    """independent exact histogram of the scenario (python Fractions)"""
    nd = len(c["vars"])
    nt = 1
    for v in c["vars"]:
        nt *= v["nx"]
    counts = [0] * nt
    rel = 0
    first = True
    ab = c.get("step0", 0)
    for boundary, zs in c["events"]:
        if first:
            first = False
        elif boundary == "r":
            rel = 0
        elif not boundary:
            rel += 1
            ab += 1
        elig = ((rel > 0 and boundary is not True) or c["stepzero"]) and ab % c.get("tsf", 1) == 0
        if not elig:
            continue
        a = 0
        ok = True
        for v, z in zip(c["vars"], zs):
            x = fr(z)
            if v["periodic"]:
                P, cc = fr(v["P"]), fr(v["c"])
                x = x - floor_fr((x - cc) / P + Fr(1, 2)) * P
            i = floor_fr((x - fr(v["lower"])) / fr(v["w"]))
            if not (0 <= i < v["nx"]):
                ok = False
                break
            a = a * v["nx"] + i
        if ok:
            counts[a] += 1
    return counts


def parse_hist_state(path, name="h"):
    txt = open(path).read()
    m = re.search(r"histogram\s*\{\s*configuration\s*\{[^}]*name\s+%s\s*\}\s*grid\s+([^}]*)\}" % re.escape(name), txt)
    if not m:
        return None
    return [float(t) for t in m.group(1).split()]



def check_hist_files(run, c, d, exp, model, scenario):
    """the histogram's own output files (written by write_output_files at the end of the run): the multicolumn file must be
    the model's write_multicol of the expected grid, and the OpenDX header must describe the grid"""
    vs = c["vars"]
    nd = len(vs)
    dat = os.path.join(d, "hout%d.h.dat" % c["id"])
    dx = os.path.join(d, "hout%d.h.dx" % c["id"])
    if not c["events"] or not any(True for _ in exp):
        return
    # the files are written once the bias has been updated (colvarbias::has_data) since the instance was created: with a
    # timeStepFactor the bias may sleep from the last restart to the end of the run
    ab, awake = c.get("step0", 0), False
    for ne, (boundary, zs) in enumerate(c["events"]):
        if ne > 0 and boundary == "r":
            awake = False
        elif ne > 0 and not boundary:
            ab += 1
        if ab % c.get("tsf", 1) == 0:
            awake = True
    if not awake:
        return
    g = {"mult": 1, "nd": nd, "nx": [v["nx"] for v in vs], "lower": [v["lower"] for v in vs], "upper": [v["upper"] for v in vs],
         "width": [v["w"] for v in vs], "per": [1 if v["periodic"] else 0 for v in vs], "data": [float(e) for e in exp]}
    if not os.path.exists(dat):
        run.mismatch("hist:file:multicol", {"scenario": scenario}, "no file " + os.path.basename(dat), "written")
        return
    text = open(dat).read()
    rc, mo, e = V.run_lines(model, ["WRITE multicol " + gridio.spec(g)])
    diff = gridio.toks_differ(mo[0][2:].split(), gridio.lex(text), 0.0) if mo and mo[0].startswith("T ") else "model: %s" % mo[:1]
    run.count("histfile%d" % c["id"], True)
    run.dist("hist:file:multicol")
    if diff:
        # oracle on the implementation alone: rows = bin centres + exact counts, in row-major order
        rows = [l.split() for l in text.split("\n") if l.strip() and not l.startswith("#")]
        import itertools
        want = []
        for a, ix in enumerate(itertools.product(*[range(v["nx"]) for v in vs])):
            want.append([v["lower"] + v["w"] * (0.5 + i) for v, i in zip(vs, ix)] + [float(exp[a])])
        got = [[float(x) for x in r_] for r_ in rows]
        if got != want:
            run.violation("hist:file:multicol", "the histogram's multicolumn file does not list the bins (centres, counts) of the exact histogram in address order: %s vs %s" % (got[:6], want[:6]),
                          {"kind": "hist", "scenario": scenario, "file": text, "expected_rows": want})
        run.mismatch("hist:file:multicol", {"scenario": scenario}, text[:500], (mo[0][:500] if mo else "") + " [" + str(diff) + "]")
    if os.path.exists(dx):
        h = gridio.dx_header(open(dx).read())
        run.dist("hist:file:dx")
        # the file is written with the stream's default 6 significant digits: dyadic values of this generator print exactly
        origin = [v["lower"] + 0.5 * v["w"] for v in vs]
        ok = (h["counts"] == g["nx"] and h["origin"] is not None and len(h["origin"]) == nd and
              all(gridio.close(a, b, 1e-5) for a, b in zip(h["origin"], origin)) and len(h["delta"]) == nd and
              all(gridio.close(h["delta"][i][j], vs[i]["w"] if i == j else 0.0, 1e-5) for i in range(nd) for j in range(nd)))
        if not ok:
            run.violation("hist:file:dx-header", "the OpenDX header %s does not describe the histogram's grid: sizes %s, first bin centres %s, widths %s" % (
                h, g["nx"], origin, g["width"]), {"kind": "hist", "scenario": scenario, "file": open(dx).read()[:2000]})
    else:
        run.mismatch("hist:file:dx", {"scenario": scenario}, "no file " + os.path.basename(dx), "written")



# ---------------------------------------------------------------- a real save/load of a gridded bias
def meta_state_scenario(r, k):
    """metadynamics with grids on 1-2 exact variables with non-dyadic boundaries: run, save, fresh instance, load, and let both
    instances write their PMF (multicolumn form, full precision): the grid of the resumed instance must be the configured one"""
    nd = r.choice([1, 1, 2])
    vs = []
    for d in range(nd):
        lo = r.choice(gridio.NONDYADIC[:7]) * r.choice([1, 1, -1])
        w = r.choice([0.5, 0.3, 0.25, 0.7])
        n = r.randint(4, 8)
        vs.append({"lower": lo, "w": w, "nx": n, "upper": lo + n * w})
    cfg = ["config END"]
    for d, v in enumerate(vs):
        cfg += ["colvar {", "  name v%d" % d, "  lowerBoundary %r" % v["lower"], "  upperBoundary %r" % v["upper"], "  width %r" % v["w"],
                "  distanceZ {", "    main { atomNumbers %d }" % (d + 1), "    ref { dummyAtom (0,0,0) }", "    axis (0,0,1)", "  }", "}"]
    cfg += ["metadynamics {", "  name m", "  colvars " + " ".join("v%d" % d for d in range(nd)), "  hillWeight 0.25", "  hillWidth 1.0",
            "  newHillFrequency 1", "  useGrids on", "  writeFreeEnergyFile on", "}", "END"]
    L = ["natoms %d" % nd, "prefix metaA%d" % k, "new"] + cfg + ["show atomf 0 energy 0 bias 0 cv 0"]
    for s_ in range(r.randint(3, 5)):
        for d, v in enumerate(vs):
            L.append("pos %d 0 0 %r" % (d + 1, v["lower"] + v["w"] * r.uniform(1.5, v["nx"] - 1.5)))
        L.append("step")
    # the job that loads the state is configured as the first one, or (legally) with wider boundaries: then the grid comes
    # back as it was saved (rebinGrids off) or is mapped onto the newly configured grid (rebinGrids on)
    mode = ("same", "wider", "wider-rebin")[k % 3]
    vb = [dict(v) for v in vs]
    cfgb = list(cfg)
    if mode != "same":
        for v in vb:
            v["e1"], e2 = r.randint(0, 2), r.randint(0, 2)
            if v["e1"] + e2 == 0:
                e2 = 1
            v["lower"], v["upper"], v["nx"] = v["lower"] - v["e1"] * v["w"], v["upper"] + e2 * v["w"], v["nx"] + v["e1"] + e2
        cfgb = ["config END"]
        for d, v in enumerate(vb):
            cfgb += ["colvar {", "  name v%d" % d, "  lowerBoundary %r" % v["lower"], "  upperBoundary %r" % v["upper"], "  width %r" % v["w"],
                     "  distanceZ {", "    main { atomNumbers %d }" % (d + 1), "    ref { dummyAtom (0,0,0) }", "    axis (0,0,1)", "  }", "}"]
        cfgb += ["metadynamics {", "  name m", "  colvars " + " ".join("v%d" % d for d in range(nd)), "  hillWeight 0.25", "  hillWidth 1.0",
                 "  newHillFrequency 1", "  useGrids on", "  writeFreeEnergyFile on"] + (["  rebinGrids on"] if mode == "wider-rebin" else []) + ["}", "END"]
    L += ["save %s meta%d.state" % ("binary" if k % 2 else "text", k), "postrun", "prefix metaB%d" % k, "fresh"] + cfgb + ["load meta%d.state" % k, "postrun"]
    for v, b in zip(vs, vb):
        v["mode"], v["b"] = mode, b
    return vs, "\n".join(L) + "\n"


def multicol_header(text):
    hdr = [l.split() for l in text.split("\n") if l.startswith("#")]
    if not hdr or len(hdr[0]) < 2:
        return None
    return [(float(h[1]), float(h[2]), int(h[3]), int(h[4])) for h in hdr[1:]]


def check_meta_states(run, r, vsim, d, n):
    for k in range(n):
        vs, scn = meta_state_scenario(r, k)
        sc = os.path.join(d, "meta%d.scn" % k)
        open(sc, "w").write(scn)
        rc, o, e = V.sh([vsim, sc], cwd=d, timeout=120)
        fa, fb = os.path.join(d, "metaA%d.pmf" % k), os.path.join(d, "metaB%d.pmf" % k)
        run.count("metastate%d" % k, True)
        run.dist("state:meta:nd=%d" % len(vs))
        if o.count("CONFIG err=ok") != 2 or "LOAD err=ok" not in o or not os.path.exists(fa) or not os.path.exists(fb):
            run.mismatch("state:meta:run", {"scenario": scn}, o[-400:], "two instances configured, state loaded, two PMF files")
            continue
        ha, hb = multicol_header(open(fa).read()), multicol_header(open(fb).read())
        want = [(v["lower"], v["w"], v["nx"], 0) for v in vs]
        def same(h):
            return h is not None and len(h) == len(want) and all(
                gridio.close(a[0], b[0], 1e-12) and gridio.close(a[1], b[1], 1e-12) and a[2] == b[2] and a[3] == b[3] for a, b in zip(h, want))
        if not same(ha):
            run.mismatch("state:meta:config", {"scenario": scn}, ha, want)
            continue
        mode = vs[0].get("mode", "same")
        run.dist("state:meta:mode=" + mode)
        if mode == "wider-rebin":
            # the saved grid mapped onto the newly configured one (map_grid): the new geometry, the saved values in the bins
            # they had (the PMF is defined up to a constant)
            wantb = [(v["b"]["lower"], v["b"]["w"], v["b"]["nx"], 0) for v in vs]
            okb = hb is not None and len(hb) == len(wantb) and all(gridio.close(a[0], b[0], 1e-12) and gridio.close(a[1], b[1], 1e-12) and a[2] == b[2]
                                                                   for a, b in zip(hb, wantb))
            bad = None if okb else "the re-binned grid has lower boundary/width/size %s, configured %s" % ([h_[:3] for h_ in hb] if hb else None, [w_[:3] for w_ in wantb])
            if okb and len(vs) == 1:
                da = [float(l.split()[1]) for l in open(fa).read().split("\n") if l.strip() and not l.startswith("#")]
                db = [float(l.split()[1]) for l in open(fb).read().split("\n") if l.strip() and not l.startswith("#")]
                e1 = vs[0]["b"]["e1"]
                diffs = [db[i + e1] - da[i] for i in range(len(da))] if len(db) >= len(da) + e1 else None
                if diffs is None or max(diffs) - min(diffs) > 1e-9 * max(1.0, max(abs(x) for x in da)):
                    bad = "the re-binned PMF %s is not the saved PMF %s moved by %d bins (up to a constant)" % (db[:12], da[:12], e1)
            if bad:
                run.violation("io:state:metadynamics-rebin", "state of a metadynamics bias loaded by a job configured with wider boundaries and rebinGrids on: " + bad,
                              {"kind": "hist", "scenario": scn})
            for f in glob.glob(os.path.join(d, "meta?%d.*" % k)) + glob.glob(os.path.join(d, "meta%d.*" % k)):
                os.remove(f)
            continue
        if not same(hb):
            run.violation("io:roundtrip:state:metadynamics", "after saving and loading the state of a metadynamics bias the energy grid has lower boundary/width/size %s; the grid that was saved (and is configured) has %s" % (
                [h_[:3] for h_ in hb] if hb else None, [w_[:3] for w_ in want]), {"kind": "hist", "scenario": scn})
        else:
            # same geometry: the data must be the same as well (the PMF of the resumed instance = that of the first)
            da = [l.split() for l in open(fa).read().split("\n") if l.strip() and not l.startswith("#")]
            db = [l.split() for l in open(fb).read().split("\n") if l.strip() and not l.startswith("#")]
            if len(da) != len(db) or any(not gridio.close(float(x), float(y), 1e-9) for ra, rb in zip(da, db) for x, y in zip(ra, rb)):
                run.violation("io:roundtrip:state:metadynamics-data", "the PMF written after loading the saved state differs from the PMF written before saving",
                              {"kind": "hist", "scenario": scn, "before": da[:20], "after": db[:20]})
        for f in glob.glob(os.path.join(d, "meta?%d.*" % k)) + glob.glob(os.path.join(d, "meta%d.*" % k)):
            os.remove(f)


VECTOR_SCN = """natoms 2
new
config END
colvar {
  name v0
  cartesian {
    atoms { atomNumbers 1 2 }
  }
}
histogram {
  name h
  colvars v0
  gatherVectorColvars on
  weights 1 2 3 4 5 6
  histogramGrid {
    lowerBoundary 0.0
    upperBoundary 4.0
    width 0.5
  }
}
END
show atomf 0 energy 0 bias 0 cv 0
pos 1 0.25 1.25 2.25
pos 2 0.75 1.75 3.75
step
step
step
save text vec.state
"""


BAD_HIST_CONFIGS = [
    ("gatherVectorColvars on a scalar variable", "distanceZ {\n    main { atomNumbers 1 }\n    ref { dummyAtom (0,0,0) }\n    axis (0,0,1)\n  }", None,
     "  gatherVectorColvars on\n  histogramGrid {\n    lowerBoundary 0\n    upperBoundary 4\n    width 1\n  }"),
    ("a vector variable without gatherVectorColvars", "cartesian {\n    atoms { atomNumbers 1 2 }\n  }", None, ""),
    ("gathered vectors of different lengths", "cartesian {\n    atoms { atomNumbers 1 2 }\n  }", "cartesian {\n    atoms { atomNumbers 1 }\n  }",
     "  gatherVectorColvars on\n  histogramGrid {\n    lowerBoundary 0 0\n    upperBoundary 4 4\n    width 1 1\n  }"),
    ("gathered vectors without a histogramGrid block", "cartesian {\n    atoms { atomNumbers 1 2 }\n  }", None, "  gatherVectorColvars on"),
]


def check_bad_histogram_configs(run, vsim, d):
    """configurations the histogram must refuse with an input error (and without crashing)"""
    for k, (what, comp0, comp1, opts) in enumerate(BAD_HIST_CONFIGS):
        L = ["natoms 3", "new", "config END", "colvar {", "  name v0", "  " + comp0, "}"]
        if comp1:
            L += ["colvar {", "  name v1", "  " + comp1, "}"]
        L += ["histogram {", "  name h", "  colvars v0" + (" v1" if comp1 else "")] + ([opts] if opts else []) + ["}", "END", "pos 1 0 0 1", "step"]
        scn = "\n".join(L) + "\n"
        sc = os.path.join(d, "badh%d.scn" % k)
        open(sc, "w").write(scn)
        rc, o, e = V.sh([vsim, sc], cwd=d, timeout=60)
        run.count("bad-hist-config%d" % k, True)
        run.dist("hist:bad-config")
        if rc != 0 or "CONFIG err=" not in o or "nbias=0" not in o or "err=ok" in o.split("CONFIG")[1].split("\n")[0]:
            run.violation("hist:bad-config", "a histogram with %s is not refused with an error (rc=%d, %s)" % (
                what, rc, o.split("CONFIG")[1].split("\n")[0] if "CONFIG" in o else o[-100:]), {"kind": "hist", "scenario": scn})
        os.remove(sc)


def check_extended_histograms(run, r, vsim, model, d, n):
    """histograms of an extended-Lagrangian variable: by default the extended coordinate is binned, with
    bypassExtendedLagrangian the actual value, and `colvars v v` gives the joint histogram (actual value, extended coordinate):
    colvar_grid::request_actual_value / use_actual_value.  The extended coordinate is read from the values the module reports."""
    for k in range(n):
        w = r.choice([0.5, 0.25, 1.0]); nx = r.randint(3, 8); lo = V.dyadic(r, -2, 2, bits=2)
        up = lo + nx * w
        L = ["natoms 1", "temperature 300", "new", "config END", "colvar {", "  name v0", "  lowerBoundary %r" % lo, "  upperBoundary %r" % up,
             "  width %r" % w, "  extendedLagrangian on", "  extendedFluctuation %r" % (w / 2), "  extendedTimeConstant 50",
             "  distanceZ {", "    main { atomNumbers 1 }", "    ref { dummyAtom (0,0,0) }", "    axis (0,0,1)", "  }", "}",
             "histogram {", "  name h", "  colvars v0 v0", "}",
             "histogram {", "  name hb", "  colvars v0", "  bypassExtendedLagrangian on", "}",
             "histogram {", "  name he", "  colvars v0", "}", "END", "show atomf 0 energy 0 bias 0"]
        zs = []
        for s_ in range(r.randint(5, 10)):
            q = r.random()
            z = lo + r.randint(-1, nx + 1) * w if q < 0.3 else (lo - r.randint(1, 7) * w / 8 if q < 0.4 else lo + r.randint(0, 8 * nx - 1) * w / 8 + w / 16)
            zs.append(z)
            L += ["pos 1 0 0 %s" % V.hexf(z), "step"]
        sf = os.path.join(d, "ext%d.state" % k)
        L.append("save text %s" % sf)
        scn = "\n".join(L) + "\n"
        sc = os.path.join(d, "ext%d.scn" % k)
        open(sc, "w").write(scn)
        rc, o, e = V.sh([vsim, sc], cwd=d, timeout=120)
        run.count("exthist%d" % k, True)
        run.dist("hist:extended")
        ext = [float.fromhex(l.split()[2]) for l in o.split("\n") if l.startswith("CV v0 ")]
        if "CONFIG err=ok ncv=1 nbias=3" not in o or len(ext) != len(zs) or not os.path.exists(sf):
            run.mismatch("hist:extended:run", {"scenario": scn}, o[-300:], "three histograms configured, one value per step")
            continue
        def b(x):
            q = (Fr(x) - Fr(lo)) / Fr(w)
            return q.numerator // q.denominator
        eb = [0.0] * nx; ee = [0.0] * nx; ej = [0.0] * (nx * nx)
        for t in range(1, len(zs)):          # step 0 is not eligible
            ia, ie = b(zs[t]), b(ext[t])
            if 0 <= ia < nx:
                eb[ia] += 1
            if 0 <= ie < nx:
                ee[ie] += 1
            if 0 <= ia < nx and 0 <= ie < nx:
                ej[ia * nx + ie] += 1
        got = {nm: parse_hist_state(sf, nm) for nm in ("h", "hb", "he")}
        for nm, exp_, what in (("hb", eb, "bypassExtendedLagrangian: the actual values %s" % zs[1:]), ("he", ee, "the extended coordinate %s" % ext[1:]),
                               ("h", ej, "`colvars v0 v0`: (actual value, extended coordinate)")):
            if got[nm] != exp_:
                run.violation("hist:extended:" + nm, "histogram of an extended-Lagrangian variable (%s): counts %s, the exact histogram is %s" % (what, got[nm], exp_),
                              {"kind": "hist", "scenario": scn, "expected": exp_, "got": got[nm]})
        # the model on the same samples (joint histogram: two values per sample)
        parts = ["HIST", "0", "0", "2", V.hexf(lo), V.hexf(lo), V.hexf(w), V.hexf(w), str(nx), str(nx), str(len(zs))]
        for t in range(len(zs)):
            parts += [str(t), "0", "1", V.hexf(zs[t]), V.hexf(ext[t]), V.hexf(1.0)]
        rcm, mo, em = V.run_lines(model, [" ".join(parts)])
        mv = [float.fromhex(t) for t in mo[0].split()] if mo else None
        if mv != got["h"]:
            run.mismatch("hist:extended:h", {"scenario": scn}, got["h"], mv)
        for f in (sf, sc):
            if os.path.exists(f):
                os.remove(f)


def check_hist_state_other_grid(run, vsim, d):
    """a histogram state (raw counts, no grid parameters) loaded by a job whose grid legally differs: more or fewer bins must be
    an error; the same number of bins on other boundaries cannot be noticed by the reader (recorded finding)"""
    def cfg(lo, up, w):
        return ["config END", "colvar {", "  name v0", "  lowerBoundary %r" % lo, "  upperBoundary %r" % up, "  width %r" % w,
                "  distanceZ {", "    main { atomNumbers 1 }", "    ref { dummyAtom (0,0,0) }", "    axis (0,0,1)", "  }", "}",
                "histogram {", "  name h", "  colvars v0", "}", "END"]
    for name, (lo, up, w) in (("more", (0.0, 6.0, 1.0)), ("fewer", (0.0, 3.0, 1.0)), ("shifted", (1.0, 5.0, 1.0))):
        L = ["natoms 1", "new"] + cfg(0.0, 4.0, 1.0) + ["show atomf 0 energy 0 bias 0 cv 0"]
        for z in [0.5, 1.5, 1.5, 3.5, 2.5]:
            L += ["pos 1 0 0 %r" % z, "step"]
        L += ["save text og_%s.state" % name, "fresh"] + cfg(lo, up, w) + ["load og_%s.state" % name, "save text og2_%s.state" % name]
        scn = "\n".join(L) + "\n"
        sc = os.path.join(d, "og_%s.scn" % name)
        open(sc, "w").write(scn)
        rc, o, e = V.sh([vsim, sc], cwd=d, timeout=60)
        run.count("hist-state-other-grid-" + name, True)
        run.dist("hist:state-other-grid")
        load = [l for l in o.split("\n") if l.startswith("LOAD")]
        if name in ("more", "fewer"):
            if rc != 0 or not load or "err=ok" in load[0]:
                run.violation("hist:state-other-grid:" + name, "a histogram state of 4 bins loaded by a histogram of %s bins is accepted (%s)" % (
                    "6" if name == "more" else "3", load), {"kind": "hist", "scenario": scn})
        else:
            got = parse_hist_state(os.path.join(d, "og2_shifted.state"))
            # samples 0.5 1.5 1.5 3.5 2.5 at steps 0..4 (step 0 not eligible): on [1,5) the counts would be 2 1 1 0
            if rc != 0 or (load and "err=ok" in load[0] and got != [2.0, 1.0, 1.0, 0.0]):
                run.violation("hist:state-into-shifted-grid", "a histogram accumulated on [0,4) (counts 0 2 1 1) and loaded by a job configured on [1,5) continues with %s: "
                              "the counts are attributed to bins that do not contain the samples (on [1,5) they are 2 1 1 0)" % got, {"kind": "hist", "scenario": scn})
        for f in glob.glob(os.path.join(d, "og*_%s.*" % name)) + [sc]:
            if os.path.exists(f):
                os.remove(f)


def check_vector_histogram(run, vsim, d):
    """vector variables gathered into one histogram (gatherVectorColvars, weights): the documented configuration"""
    sc = os.path.join(d, "vec.scn")
    open(sc, "w").write(VECTOR_SCN)
    rc, o, e = V.sh([vsim, sc], cwd=d, timeout=120)
    run.count("vector-histogram", True)
    run.dist("hist:vector")
    sf = os.path.join(d, "vec.state")
    if "CONFIG err=ok ncv=1 nbias=1" not in o:
        run.violation("hist:gatherVectorColvars-rejected", "a histogram with gatherVectorColvars on a cartesian (vector) variable and a histogramGrid block is refused at initialisation (%s): vector variables cannot be gathered into a histogram" % (
            o.split("CONFIG")[1].split("\n")[0].strip() if "CONFIG" in o else o[-100:]), {"kind": "hist", "scenario": VECTOR_SCN})
        return
    # the configuration is accepted: 6 components per step with weights 1..6; steps 1 and 2 are eligible (3 steps: 0,1,2)
    got = parse_hist_state(sf)
    vals = [0.25, 1.25, 2.25, 0.75, 1.75, 3.75]
    exp = [0.0] * 8
    for x, w_ in zip(vals, [1, 2, 3, 4, 5, 6]):
        exp[int(x // 0.5)] += 2.0 * w_
    if got != exp:
        run.violation("hist:vector:counts", "gathered vector histogram %s differs from the weighted histogram of the components at the eligible steps %s" % (got, exp),
                      {"kind": "hist", "scenario": VECTOR_SCN, "expected": exp, "got": got})
    return True


def gen_vec_hist(r, k):
    nvar = r.choice([1, 1, 2, 3])
    m = r.choice([1, 2, 3])                   # atoms per variable: 3m components
    size = 3 * m
    vs = []
    for d in range(nvar):
        w = r.choice([1.0, 0.5, 0.25, 2.0])
        vs.append({"lower": V.dyadic(r, -3, 3, bits=2), "w": w, "nx": r.randint(1, 6 if nvar < 3 else 4)})
    for v in vs:
        v["upper"] = v["lower"] + v["w"] * v["nx"]
    wmode = r.random()
    weights = None if wmode < 0.25 else [V.dyadic(r, 0, 4, bits=3) for _ in range(size)]
    stepzero = r.random() < 0.3
    events = []
    for s_ in range(r.randint(4, 10)):
        coords = []
        for v in vs:
            cs = []
            for _ in range(size):
                q = r.random()
                if q < 0.3:       # on a bin edge, including both boundaries and edges outside
                    cs.append(v["lower"] + r.randint(-2, v["nx"] + 2) * v["w"])
                elif q < 0.45:    # just outside, less than two bin widths below the lower / above the upper boundary
                    cs.append(v["lower"] - r.randint(1, 15) * v["w"] / 8 if r.random() < 0.6
                              else v["lower"] + v["w"] * v["nx"] + r.randint(0, 15) * v["w"] / 8)
                elif q < 0.88:
                    cs.append(v["lower"] + r.randint(0, v["nx"] * 8 - 1) * v["w"] / 8 + v["w"] / 16)
                else:
                    cs.append(v["lower"] + r.choice([-1, 1]) * (v["w"] * v["nx"] + r.randint(1, 40) * v["w"] / 8))
            coords.append(cs)
        events.append(((s_ > 0) and r.random() < 0.2, coords))
    return {"id": k, "vars": vs, "m": m, "weights": weights, "stepzero": stepzero, "events": events}


def vec_scenario(c, statefile):
    nvar, m = len(c["vars"]), c["m"]
    L = ["natoms %d" % (nvar * m), "new", "config END"]
    for d in range(nvar):
        L += ["colvar {", "  name v%d" % d, "  cartesian {",
              "    atoms { atomNumbers " + " ".join(str(d * m + a + 1) for a in range(m)) + " }", "  }", "}"]
    L += ["histogram {", "  name h", "  colvars " + " ".join("v%d" % d for d in range(nvar)), "  gatherVectorColvars on"]
    if c["weights"] is not None:
        L += ["  weights " + " ".join("%r" % x for x in c["weights"])]
    if c["stepzero"]:
        L += ["  stepZeroData on"]
    L += ["  histogramGrid {", "    lowerBoundary " + " ".join("%r" % v["lower"] for v in c["vars"]),
          "    upperBoundary " + " ".join("%r" % v["upper"] for v in c["vars"]),
          "    width " + " ".join("%r" % v["w"] for v in c["vars"]), "  }", "}", "END", "show atomf 0 energy 0 bias 0 cv 0"]
    for boundary, coords in c["events"]:
        for d in range(nvar):
            for a in range(m):
                x, y, z = coords[d][3 * a:3 * a + 3]
                L.append("pos %d %s %s %s" % (d * m + a + 1, V.hexf(x), V.hexf(y), V.hexf(z)))
        if boundary:
            L.append("runboundary")
        L.append("step")
    L.append("save text %s" % statefile)
    return "\n".join(L) + "\n"


def vec_expected(c):
    vs = c["vars"]
    size = 3 * c["m"]
    wts = c["weights"] if c["weights"] is not None else [1.0] * size
    nt = 1
    for v in vs:
        nt *= v["nx"]
    counts = [Fr(0)] * nt
    rel, first = 0, True
    mparts = ["HISTV", "1" if c["stepzero"] else "0", str(len(vs))] + [V.hexf(v["lower"]) for v in vs] + \
             [V.hexf(v["w"]) for v in vs] + [str(v["nx"]) for v in vs] + [str(size)] + [V.hexf(x) for x in wts] + [str(len(c["events"]))]
    for boundary, coords in c["events"]:
        if first:
            first = False
        elif not boundary:
            rel += 1
        mparts += [str(rel), "1" if boundary else "0"]
        for d in range(len(vs)):
            mparts += [V.hexf(x) for x in coords[d]]
        if not ((rel > 0 and not boundary) or c["stepzero"]):
            continue
        for iv in range(size):
            a, ok = 0, True
            for d, v in enumerate(vs):
                i = floor_fr((fr(coords[d][iv]) - fr(v["lower"])) / fr(v["w"]))
                if not (0 <= i < v["nx"]):
                    ok = False
                    break
                a = a * v["nx"] + i
            if ok:
                counts[a] += fr(wts[iv])
    return [float(x) for x in counts], " ".join(mparts)


def check_vector_scenarios(run, r, vsim, model, d, n):
    cs = [gen_vec_hist(r, k) for k in range(n)]
    em = [vec_expected(c) for c in cs]
    rc, mout, e = V.run_lines(model, [m for _, m in em])
    for k, (c, (exp, mline)) in enumerate(zip(cs, em)):
        sf, sc = os.path.join(d, "vh%d.state" % k), os.path.join(d, "vh%d.scn" % k)
        scn = vec_scenario(c, sf)
        open(sc, "w").write(scn)
        rcv, o, ev = V.sh([vsim, sc], cwd=d, timeout=120)
        run.count("vechist%d" % k, sum(exp) > 0)
        run.dist("hist:vector:nvar=%d" % len(c["vars"]))
        run.dist("hist:vector:weights=" + ("default" if c["weights"] is None else "given"))
        if "CONFIG err=ok" not in o or not os.path.exists(sf):
            run.mismatch("hist:vector:config", {"scenario": scn}, o[-300:], "accepted")
            continue
        got = parse_hist_state(sf)
        if got != exp:
            run.violation("hist:vector:counts", "gathered vector histogram %s differs from the weighted histogram %s of the components at the eligible steps (weights %s)" % (
                got, exp, c["weights"]), {"kind": "hist", "scenario": scn, "expected": exp, "got": got})
        mo = [float.fromhex(t) for t in mout[k].split()] if k < len(mout) else None
        if mo != got:
            run.mismatch("hist:vector:counts", {"scenario": scn, "model_case": mline}, got, mo)
        for f in (sf, sc):
            if os.path.exists(f):
                os.remove(f)


def setup():
    V.extract_model("C15", "coq/C15/Extract_C15.v", "props/C15/driver.ml", ["ocaml/fops.ml"])
    V.build_prog("c15unit", ["props/C15/unit.cpp"])


def check(run):
    r = V.rng("C15")
    quick = run.tier == "quick"
    run.cov["rule"] = ("unit cases: random dyadic (lower,width,x) with ~45%% exactly on bin edges; index vectors on 1-3 dim shapes; "
                       "file round trips; histogram scenarios: 1-3 exact distanceZ variables (periodic or not, custom grid blocks), "
                       "6-20 steps with values on edges/inside/outside, run boundaries, stepZeroData. distinct = distinct case text; "
                       "non-trivial = BIN on an edge or negative bin, ADDR/INCR with >=2 dims, RT, or a histogram with >=2 counted and >=1 rejected sample")
    run.assumptions += [
        "theorems are about the R instance of the model; the tie runs the float instance on dyadic inputs for which +,-,*,/ by the generated widths and floor are exact",
        "vector-variable histograms (gatherVectorColvars) are tied only on a tree where they can be configured (fix-C15); on a tree that rejects them at initialisation the finding is reported under its own signature and that branch of the model is not exercised",
    ]
    st = V.standard_start(run, PROP, "coq/C15/Extract_C15.v", "props/C15/driver.ml",
                          {"c15unit": ["props/C15/unit.cpp"], "vsim": ["harness/vsim_main.cpp"]})
    if st is None:
        return
    model, exes = st
    unit, vsim = exes["c15unit"], exes["vsim"]

    # corpus first, then generated
    cases = []
    cp = os.path.join(V.ROOT, "corpus", "C15_unit.txt")
    if os.path.exists(cp):
        cases += [l.strip() for l in open(cp) if l.strip() and not l.startswith("#")]
    cases += gen_unit(r, 1500 if quick else 30000)
    rc1, impl, e1 = V.run_lines(unit, cases)
    mcases = [c for c in cases if not c.startswith("RT")]
    rc2, mod, e2 = V.run_lines(model, mcases)
    if len(impl) != len(cases):
        run.violation("unit:crash", "the C15 unit driver died (rc=%d) after %d of %d cases: %s" % (rc1, len(impl), len(cases), e1[-300:]),
                      {"kind": "unit", "case": cases[len(impl)] if len(impl) < len(cases) else None})
        return
    mi = 0
    for c, io in zip(cases, impl):
        kind = c.split()[0]
        w = c.split()
        nontriv = True
        if kind == "BIN":
            nontriv = io.startswith("-") or ((float.fromhex(w[3]) - float.fromhex(w[1])) / float.fromhex(w[2])).is_integer()
        elif kind in ("ADDR", "INCR"):
            nontriv = int(w[2] if kind == "ADDR" else w[1]) >= 2
        elif kind == "REMAP":
            nontriv = len(set(io.split())) > 2
        run.count(c, nontriv)
        run.dist("unit:" + kind)
        bad = oracle_unit(c, io)
        if bad:
            sig = "unit:%s" % kind
            if kind == "REMAP":
                # distinguish the recorded/fixed far-below-the-period case from any other remap failure
                sig = "unit:REMAP:" + remap_class(c)
            run.violation(sig, bad, {"kind": "unit", "case": c, "impl": io})
        if kind != "RT":
            mo = mod[mi] if mi < len(mod) else "<none>"
            mi += 1
            if mo != io:
                run.mismatch("unit:" + kind, c, io, mo)
    run.sample({"unit_case": cases[-1], "impl": impl[-1]})

    # grid files: writers/readers of the three forms (+ OpenDX header), model vs real code, round-trip oracle
    gridio.run_io(run, V.rng("C15io"), unit, model, 240 if quick else 6000)
    gridio.run_round3(run, V.rng("C15r3"), unit, model, 200 if quick else 5000)
    gridio.run_round4(run, V.rng("C15r4"), unit, model, 300 if quick else 6000)

    # histogram scenarios through the engine simulator
    d = V.scratch("C15")
    n = 40 if quick else 600
    hcases = [gen_hist(r, k) for k in range(n)]
    mlines = []
    for c in hcases:
        mlines.append(hist_model_case(c))
    rc, mout, e = V.run_lines(model, mlines)
    for k, c in enumerate(hcases):
        sf = os.path.join(d, "h%d.state" % k)
        sc = os.path.join(d, "h%d.scn" % k)
        open(sc, "w").write(hist_scenario(c, sf))
        rcv, o, ev = V.sh([vsim, sc], cwd=d, timeout=120)
        exp = hist_oracle(c)
        if "CONFIG err=ok" not in o or not os.path.exists(sf):
            run.mismatch("hist:config", {"scenario": open(sc).read()}, o[-300:], "accepted")
            continue
        # every auxiliary command of the scenario must have done what it says (loads, deletion of the second histogram;
        # the rejected configuration must be rejected)
        import re as _re
        aux = [l for l in o.split("\n") if l.startswith("UNKNOWN-COMMAND") or (l.startswith("LOAD") and "err=ok" not in l)
               or (l.startswith("SCRIPT") and "err=ok" not in l) or (l.startswith("SAVE") and "err=ok" not in l)]
        nbad = sum(1 for l in o.split("\n") if l.startswith("CONFIG err=") and "err=ok" not in l)
        if aux or nbad != (1 if c.get("bad_config_at") is not None else 0):
            run.mismatch("hist:scenario-commands", {"scenario": open(sc).read()}, (aux + [l for l in o.split("\n") if l.startswith("CONFIG")])[:6], "all ok")
        got = parse_hist_state(sf)
        counted = sum(exp)
        rejected = sum(1 for b, _ in c["events"]) - counted
        run.count("hist%d" % k, counted >= 2 and rejected >= 1)
        run.dist("hist:nd=%d" % len(c["vars"]))
        run.dist("hist:periodic_vars", sum(1 for v in c["vars"] if v["periodic"]))
        run.dist("hist:boundaries", sum(1 for b, _ in c["events"] if b is True))
        run.dist("hist:restarts", sum(1 for b, _ in c["events"] if b == "r"))
        if got is None or [float(x) for x in exp] != got:
            run.violation("hist:counts", "histogram counts %s differ from the exact histogram %s of the imposed values" % (got, exp),
                          {"kind": "hist", "scenario": open(sc).read(), "expected": exp, "got": got})
        mo = [float.fromhex(t) for t in mout[k].split()] if k < len(mout) else None
        if mo != got:
            run.mismatch("hist:counts", {"scenario": open(sc).read(), "model_case": mlines[k]}, got, mo)
        if k == 0:
            run.sample({"histogram_scenario": open(sc).read().split("\n")[:40], "counts": got})
        check_hist_files(run, c, d, exp, model, open(sc).read())
        for f in [sf, sc] + glob.glob(sf + ".r*") + glob.glob(os.path.join(d, "hout%d.*" % k)):
            if os.path.exists(f):
                os.remove(f)
    check_meta_states(run, V.rng("C15meta"), vsim, d, 9 if quick else 90)
    check_bad_histogram_configs(run, vsim, d)
    check_hist_state_other_grid(run, vsim, d)
    check_extended_histograms(run, V.rng("C15ext"), vsim, model, d, 4 if quick else 60)
    if check_vector_histogram(run, vsim, d):
        check_vector_scenarios(run, V.rng("C15vec"), vsim, model, d, 30 if quick else 400)
    run.cov["correspondence"].update({"unit_cases": len(cases), "hist_scenarios": len(hcases)})


def replay(path):
    j = json.load(open(path))
    rp = j["replay"]
    print(json.dumps(j, indent=1)[:3000])
    if rp.get("kind") in ("unit", "io"):
        unit = V.build_prog("c15unit", ["props/C15/unit.cpp"])
        model = V.extract_model("C15", "coq/C15/Extract_C15.v", "props/C15/driver.ml", ["ocaml/fops.ml"])
        for key in ("case", "cmd", "write", "read"):
            c = rp.get(key)
            if not c:
                continue
            out = V.run_lines(unit, [c])[1]
            print("impl  %s: %s" % (key, [o.replace("|", "\n") if o.startswith("T ") else o for o in out]))
            w = c.split()
            if w[0] in ("GW", "SW"):
                m = "WRITE " + ("state " + " ".join(w[1:]) if w[0] == "SW" else " ".join(w[1:]))
                print("model %s: %s" % (key, V.run_lines(model, [m])[1]))
            elif w[0] in ("GR", "SR", "GF") and " TEXT " in c:
                head, text = c.split(" TEXT ", 1)
                hw = head.split()
                m = "READ " + ("state " + " ".join(hw[1:]) if hw[0] == "SR" else ("file " + " ".join(hw[1:]) if hw[0] == "GF" else " ".join(hw[1:])))
                m += " TOKS " + " ".join(gridio.lex(text.replace("|", "\n")))
                print("model %s: %s" % (key, V.run_lines(model, [m])[1]))
            elif w[0] not in ("GW", "SW", "GR", "SR", "GF"):
                print("model %s: %s" % (key, V.run_lines(model, [c])[1]))
    elif rp.get("kind") == "hist":
        vsim = V.build_prog("vsim", ["harness/vsim_main.cpp"])
        d = V.scratch("C15r")
        open(os.path.join(d, "r.scn"), "w").write(rp["scenario"])
        print(V.sh([vsim, "r.scn"], cwd=d)[1])
    return 0
