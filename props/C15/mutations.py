#!/usr/bin/env python3
# mutation self-test for C15: apply one edit to the scratch repo worktree, run the check, restore
import subprocess, sys, os, json, re
REPO = "/tmp/wk/repo-C15"
MUTS = {
 "M1_header_upper": ("src/colvargrid_def.h",
   "<< std::setw(cvm::cv_width) << std::setprecision(cvm::cv_prec) << lower_boundaries[i] << \" \"",
   "<< std::setw(cvm::cv_width) << std::setprecision(cvm::cv_prec) << upper_boundaries[i] << \" \""),
 "M2_periodic_not_written": ("src/colvargrid_def.h", "       << periodic[i] << \"\\n\";", "       << 0 << \"\\n\";"),
 "M3_read_raw_accepts_short": ("src/colvargrid_def.h",
   """        is.clear();
        is.seekg(start_pos);
        is.setstate(std::ios::failbit);
        cvm::error(
            "Error: failed to read all of the grid points from file.  Possible explanations: grid "
            "parameters in the configuration (lowerBoundary, upperBoundary, width) are different "
            "from those in the file, or the file is corrupt/incomplete.\\n",
            COLVARS_INPUT_ERROR);
        return is;""",
   """        is.clear();
        g.has_data = true;
        return is;"""),
 "M4_rows_transposed": ("src/colvargrid_def.h",
   """    for (size_t i = 0; i < nd; i++) {
      os << " "
         << std::setw(cvm::cv_width) << std::setprecision(cvm::cv_prec)
         << bin_to_value_scalar(ix[i], i);
    }
    os << " ";
    for (size_t imult = 0; imult < mult; imult++) {
      os << " "
         << std::setw(cvm::cv_width) << std::setprecision(cvm::cv_prec)
         << value_output(ix, imult);
    }""",
   """    std::vector<int> jx(ix);
    if (nd == 2) { size_t a = address(ix) / mult; jx[0] = a % nx[0]; jx[1] = a / nx[0]; }
    for (size_t i = 0; i < nd; i++) {
      os << " "
         << std::setw(cvm::cv_width) << std::setprecision(cvm::cv_prec)
         << bin_to_value_scalar(jx[i], i);
    }
    os << " ";
    for (size_t imult = 0; imult < mult; imult++) {
      os << " "
         << std::setw(cvm::cv_width) << std::setprecision(cvm::cv_prec)
         << value_output(jx, imult);
    }"""),
 "M5_bin_centre_offset_dropped": ("src/colvargrid.h",
   "    return lower_boundaries[i].real_value + widths[i] * (0.5 + i_bin);",
   "    return lower_boundaries[i].real_value + widths[i] * (0.0 + i_bin);"),
 "M6_state_upper_from_lower": ("src/colvargrid_def.h",
   "    os << \" \" << upper_boundaries[i];", "    os << \" \" << lower_boundaries[i];"),
 "M7_multicol_add_ignored": ("src/colvargrid_def.h",
   "        value_input(ix, new_value[imult], imult, add);\n      }\n    }\n  }\n  has_data = true;",
   "        value_input(ix, new_value[imult], imult, false);\n      }\n    }\n  }\n  has_data = true;"),
 "M8_dx_origin_no_half": ("src/colvargrid_def.h",
   "(lower_boundaries[icv].real_value + 0.5 * widths[icv])", "(lower_boundaries[icv].real_value)"),
 "M9_state_no_realloc_check": ("src/colvargrid_def.h",
   "      if (old_nx[i] != nx[i] ||", "      if ("),
 "M9b_state_never_reallocates": ("src/colvargrid_def.h", "  if (new_params) {\n    init_from_boundaries();", "  if (new_params && nx.size() == 0) {\n    init_from_boundaries();"),
 "M16_vector_guard_removed": ("src/colvarbias_histogram.cpp",
   "      if (can_accumulate_data()) {\n        if (grid->index_ok(bin)) {\n          grid->acc_value(bin, weights[iv]);\n        }\n      }",
   "      {\n        if (grid->index_ok(bin)) {\n          grid->acc_value(bin, weights[iv]);\n        }\n      }"),
 "M17_weights_ignored": ("src/colvarbias_histogram.cpp", "grid->acc_value(bin, weights[iv]);", "grid->acc_value(bin, 1.0);"),
 "M18_vector_component_index": ("src/colvargrid.h", "                               cv[i]->value().vector1d_value[iv], i);", "                               cv[i]->value().vector1d_value[0], i);"),
 "M19_value_to_bin_truncates": ("src/colvargrid.h", "    return (int) cvm::floor( (value.real_value - lower_boundaries[i].real_value) / widths[i] );", "    return (int) ( (value.real_value - lower_boundaries[i].real_value) / widths[i] );"),
 "R1_binary_values_reversed": ("src/colvargrid_def.h",
   "      os << value_output(ix, imult);\n", "      os << value_output(ix, mult - 1 - imult);\n"),
 "R2_normalised_input_not_multiplied": ("src/colvargrid.h",
   "        data[address(ix) + imult] = new_value * samples->value(ix);\n      else\n        data[address(ix) + imult] = new_value;\n    }\n    has_data = true;\n  }\n\n\n  /// Compute and return average value for a 1D gradient grid",
   "        data[address(ix) + imult] = new_value;\n      else\n        data[address(ix) + imult] = new_value;\n    }\n    has_data = true;\n  }\n\n\n  /// Compute and return average value for a 1D gradient grid"),
 "R3_multicol_precision_10": ("src/colvargrid_def.h",
   "         << std::setw(cvm::cv_width) << std::setprecision(cvm::cv_prec)\n         << value_output(ix, imult);",
   "         << std::setw(cvm::cv_width) << std::setprecision(10)\n         << value_output(ix, imult);"),
 "R4_binary_read_accepts_short": ("src/colvargrid_def.h", "      if (is >> new_value) {\n        g.value_input(ix, new_value, imult);\n      } else {", "      if ((is >> new_value) || std::is_same<IST, cvm::memory_stream>::value) {\n        g.value_input(ix, new_value, imult);\n      } else {"),
 "Q1_bound_no_clamp_low": ("src/colvargrid.h", "    if (bin_index < 0) bin_index=0;\n", "    if (bin_index < -1) bin_index=0;\n"),
 "Q2_fraction_uses_trunc": ("src/colvargrid.h", "    return x - cvm::floor(x);", "    return x - (cvm::real)((long) x);"),
 "Q3_wrap_to_edge_upper": ("src/colvargrid.h", "        edge_bin[i] = nx[i] - 1;", "        edge_bin[i] = nx[i];"),
 "Q4_map_grid_uses_lower_edge": ("src/colvargrid.h", "    return new_offset.real_value + new_width * (0.5 + i_bin);", "    return new_offset.real_value + new_width * (0.0 + i_bin);"),
 "Q5_add_grid_scale_ignored": ("src/colvargrid.h", "        data[i] += static_cast<T>(scale_factor * other_grid.data[i]);", "        data[i] += static_cast<T>(other_grid.data[i]);"),
 "Q6_extra_bin_periodic_widened": ("src/colvargrid.h", "        if (periodic[i]) {\n          // Just shift\n          upper_boundaries[i] -= 0.5 * widths[i];", "        if (false) {\n          // Just shift\n          upper_boundaries[i] -= 0.5 * widths[i];"),
 "Q7_hist_binary_state_not_read": ("src/colvarbias_histogram.cpp", "cvm::memory_stream & colvarbias_histogram::read_state_data(cvm::memory_stream& is)\n{\n  if (read_state_data_key(is, \"grid\")) {\n    grid->read_raw(is);", "cvm::memory_stream & colvarbias_histogram::read_state_data(cvm::memory_stream& is)\n{\n  if (read_state_data_key(is, \"grid\")) {\n    colvar_grid_scalar tmp(*grid); tmp.setup(); tmp.read_raw(is);"),
 "Q8_delta_grid_sign": ("src/colvargrid.h", "      data[i] = other_grid.data[i] - data[i];", "      data[i] = data[i] - other_grid.data[i];"),
 "P1_step_absolute_int_copy": ("src/colvarmodule.cpp", "      if (step_absolute() % tsf == 0) {\n        (*bi)->enable(colvardeps::f_cvb_awake);", "      if (((int) step_absolute()) % tsf == 0) {\n        (*bi)->enable(colvardeps::f_cvb_awake);"),
 "P2_bypass_ext_lagrangian_ignored": ("src/colvarbias_histogram.cpp", "    grid->request_actual_value();", "    ;"),
 "P3_joint_histogram_actual_value_flag": ("src/colvargrid.h", "        use_actual_value[i-1] = true;", "        use_actual_value[i-1] = false;"),
 "P4_map_grid_skips_last_component": ("src/colvargrid.h", "      for (size_t im = 0; im < mult; im++) {\n        this->set_value(ix, other_grid.value(oix, im), im);", "      for (size_t im = 0; im + 1 < mult || im == 0; im++) {\n        this->set_value(ix, other_grid.value(oix, im), im);"),
 "M14_init_from_boundaries_truncates": ("src/colvargrid.h", "      int nbins_round = (int)(nbins+0.5);", "      int nbins_round = (int)(nbins);"),
 "M15_state_sizes_line_missing_value": ("src/colvargrid_def.h", "  for (i = 0; i < nd; i++)\n    os << \" \" << nx[i];", "  for (i = 0; i + 1 < nd; i++)\n    os << \" \" << nx[i];"),
 "M10_raw_values_not_in_address_order": ("src/colvargrid_def.h",
   "      os << \" \" << std::setw(w) << std::setprecision(p) << value_output(ix, imult);",
   "      os << \" \" << std::setw(w) << std::setprecision(p) << value_output(ix, mult - 1 - imult);"),
 "M11_state_precision_back": ("src/colvargrid_def.h", "  os.precision(cvm::cv_prec);\n  os << \"  n_colvars \"", "  os << \"  n_colvars \""),
 "M12_ctor_ignores_truncation": ("src/colvargrid_def.h", "if (!read_multicol(is)) {", "read_multicol(is); if (false) {"),
 "M13_read_multicol_skips_last_dim_centre": ("src/colvargrid_def.h",
   "      for (size_t i = 0; i < nd; i++ ) {\n        is >> x;\n      }",
   "      for (size_t i = 0; i + 1 < nd || i == 0; i++ ) {\n        is >> x;\n      }"),
}
def sh(cmd, **kw):
    return subprocess.run(cmd, shell=True, stdout=subprocess.PIPE, stderr=subprocess.STDOUT, text=True, **kw)
names = sys.argv[1:] or list(MUTS)
for n in names:
    f, old, new = MUTS[n]
    p = os.path.join(REPO, f)
    s = open(p).read()
    if s.count(old) != 1:
        print(n, "PATTERN COUNT", s.count(old)); continue
    open(p, "w").write(s.replace(old, new))
    env = dict(os.environ, VERIF_REPO=REPO, VERIF_BUILD="/tmp/wk/build-C15-mut", VERIF_JOBS="4")
    r = sh("cd /tmp/wk/C15 && ./check C15 --tier quick", env=env)
    out = r.stdout
    sigs = re.findall(r"^  # ([^ ]+):", out, flags=re.M)
    viol = [l for l in out.split("\n") if l.startswith("VIOLATION")]
    nofound = [l for l in viol if "no-failing-input-found" in l]
    print("%-40s rc=%d violations=%d (without input: %d) sigs=%s" % (n, r.returncode, len(viol), len(nofound), sigs))
    if "INFRA" in out: print(out[-1500:])
    sh("cd %s && git checkout -- ." % REPO)
