// C11 unit driver: runs operation sequences on the real cvm::memory_stream and prints, after every
// operation, the cursor/buffer/error state, and what each read delivered.  Same case lines as the
// model driver (props/C11/driver.ml).
//
//   MS <max|default> <op> <op> ...
//     wo:<hex>            write_object<blob<n>>            (n = number of bytes)
//     ws:<hex>            write_object<std::string>
//     wv:<sz>:<n>:<hex>   write_vector<blob<sz>> of n elements
//     ro:<sz>  rs  rv:<sz>   read_object / read string / read_vector
//     sk:<pos>  cl  re    seekg / clear / memory_stream(os.length(), os.output_buffer())
//     in:<hex>            memory_stream(n, buf) over the given bytes
//   TY <type> <hex floats...>   typed round trips through the real operators (oracle only)
//
// The buffer's capacity is reserved and zeroed up front so that a cursor that runs past
// buffer.size() (a defect the check reports) stays inside allocated memory; a case stops as soon
// as data_length_ > buffer.size().
#include <cstdio>
#include <cstdlib>
#include <cstring>
#include <iostream>
#include <sstream>
#include <string>
#include <vector>
#include <stdexcept>
#include <new>
#include <cmath>
#include <fstream>
#include <map>
#include <set>
#include <list>
#include <algorithm>
#include <functional>
#include <thread>
#include <mutex>
#include <iomanip>
#include <typeinfo>
#include <memory>
#include <unordered_map>
#include <unordered_set>
#include <array>
#include <limits>
#include <atomic>
#include <condition_variable>
#include <numeric>
#include <iterator>
#include <utility>
#include <cstdint>
#define private public
#define protected public
#include "vsim.h"
#include "colvars_memstream.h"
#undef private
#undef protected

template <int N> struct blob { unsigned char b[N]; };

static std::vector<unsigned char> unhex(std::string const &h)
{
  std::vector<unsigned char> v;
  for (size_t i = 0; i + 1 < h.size(); i += 2) v.push_back((unsigned char) strtoul(h.substr(i, 2).c_str(), NULL, 16));
  return v;
}
static std::string tohex(unsigned char const *p, size_t n)
{
  static const char *d = "0123456789abcdef";
  std::string s;
  for (size_t i = 0; i < n; i++) { s += d[p[i] >> 4]; s += d[p[i] & 15]; }
  return s;
}

static size_t const CAP = 1 << 16;

struct mstate {
  cvm::memory_stream *ms;
  std::vector<unsigned char> ext;   // storage of a re-opened (input) stream
  bool input;
  mstate() : ms(NULL), input(false) {}
  size_t bufsize() const { return input ? ms->data_length_ : ms->internal_buffer_.size(); }
};

template <int N> void wobj(cvm::memory_stream &ms, std::vector<unsigned char> const &b)
{ blob<N> x; memcpy(x.b, b.data(), N); ms.write_object(x); }
template <int N> void wvec(cvm::memory_stream &ms, size_t n, std::vector<unsigned char> const &b)
{ std::vector<blob<N> > v(n); if (n) memcpy((void *) v.data(), b.data(), n * N); ms.write_vector(v); }
template <int N> std::string robj(cvm::memory_stream &ms)
{ blob<N> x; memset(x.b, 0xee, N); ms.read_object(x); return ms ? "B:" + tohex(x.b, N) : "N"; }
static long g_case = 0;   // case counter: the reused destinations are reset (to three 0xee elements) at every case
template <int N> std::string rvec(cvm::memory_stream &ms)
{
  // ONE destination per element size, reused by every vector read of the case and never empty to begin with:
  // what is printed is what the destination holds after the read
  static std::vector<blob<N> > v;
  static long gen = -1;
  if (gen != g_case) { v.assign(3, blob<N>()); memset((void *) v.data(), 0xee, 3 * N); gen = g_case; }
  ms.read_vector(v);
  if (!ms) return "N";
  return "V:" + cvm::to_str(v.size()) + ":" + tohex((unsigned char const *) v.data(), v.size() * N);
}

#define SIZES(X) X(1) X(2) X(3) X(4) X(5) X(7) X(8) X(9) X(12) X(16) X(24) X(32)

static bool do_wobj(cvm::memory_stream &ms, std::vector<unsigned char> const &b)
{
  switch (b.size()) {
#define X(N) case N: wobj<N>(ms, b); return true;
    SIZES(X)
#undef X
  }
  return false;
}
static bool do_wvec(cvm::memory_stream &ms, int sz, size_t n, std::vector<unsigned char> const &b)
{
  switch (sz) {
#define X(N) case N: wvec<N>(ms, n, b); return true;
    SIZES(X)
#undef X
  }
  return false;
}
static std::string do_robj(cvm::memory_stream &ms, int sz)
{
  switch (sz) {
#define X(N) case N: return robj<N>(ms);
    SIZES(X)
#undef X
  }
  return "?";
}
static std::string do_rvec(cvm::memory_stream &ms, int sz)
{
  switch (sz) {
#define X(N) case N: return rvec<N>(ms);
    SIZES(X)
#undef X
  }
  return "?";
}

static std::string state_str(mstate &m)
{
  std::ostringstream o;
  std::ios::iostate st = m.ms->rdstate();
  o << m.ms->data_length_ << "," << m.bufsize() << "," << m.ms->read_pos_ << ","
    << ((st & std::ios::eofbit) ? "e" : "-") << ((st & std::ios::failbit) ? "f" : "-") << ((st & std::ios::badbit) ? "b" : "-");
  return o.str();
}

static void run_ms(std::vector<std::string> const &a)
{
  g_case++;
  mstate m;
  size_t mx = (a[0] == "default") ? (static_cast<size_t>(1L) << 36) : strtoull(a[0].c_str(), NULL, 10);
  m.ms = new cvm::memory_stream(mx);
  m.ms->internal_buffer_.reserve(CAP);
  memset(m.ms->internal_buffer_.data(), 0, CAP);
  std::ostringstream out;
  bool stopped = false;
  for (size_t k = 1; k < a.size() && !stopped; k++) {
    std::string const &op = a[k];
    std::string kind = op.substr(0, 2);
    std::string arg = op.size() > 3 ? op.substr(3) : "";
    std::string res = "-";
    try {
      if (kind == "wo") { if (!do_wobj(*m.ms, unhex(arg))) res = "?"; }
      else if (kind == "ws") { std::vector<unsigned char> b = unhex(arg); m.ms->write_object(std::string((char const *) b.data(), b.size())); }
      else if (kind == "wv") {
        size_t p1 = arg.find(':'), p2 = arg.find(':', p1 + 1);
        int sz = atoi(arg.substr(0, p1).c_str());
        size_t n = strtoull(arg.substr(p1 + 1, p2 - p1 - 1).c_str(), NULL, 10);
        if (!do_wvec(*m.ms, sz, n, unhex(arg.substr(p2 + 1)))) res = "?";
      }
      else if (kind == "ro") res = do_robj(*m.ms, atoi(arg.c_str()));
      else if (kind == "rs") { std::string s("\xee"); m.ms->read_object(s); res = (*m.ms) ? "B:" + tohex((unsigned char const *) s.data(), s.size()) : "N"; }
      else if (kind == "rv") res = do_rvec(*m.ms, atoi(arg.c_str()));
      else if (kind == "sk") m.ms->seekg(strtoull(arg.c_str(), NULL, 10));
      else if (kind == "cl") m.ms->clear();
      else if (kind == "in") {
        // memory_stream(n, buf) over arbitrary bytes
        delete m.ms;
        m.ext = unhex(arg);
        m.ext.reserve(m.ext.size() + 1);
        m.ms = new cvm::memory_stream(m.ext.size(), m.ext.data());
        m.input = true;
      }
      else if (kind == "re" && m.input) res = "?";
      else if (kind == "re") {
        // what a consumer does with a written stream: memory_stream(os.length(), os.output_buffer())
        size_t n = m.ms->length();
        std::vector<unsigned char> copy(m.ms->output_buffer(), m.ms->output_buffer() + n);
        delete m.ms;
        m.ext.swap(copy);
        m.ms = new cvm::memory_stream(m.ext.size(), m.ext.data());
        m.input = true;
      }
      else res = "?";
    } catch (std::length_error const &) { res = "T";
    } catch (std::bad_alloc const &) { res = "T";
    }
    out << " " << kind << "=" << res << "|" << state_str(m);
    if (m.ms->data_length_ > m.bufsize()) { out << " OVERRUN"; stopped = true; }
  }
  size_t n = std::min((size_t) m.ms->data_length_, m.bufsize());
  out << " buf=" << tohex(m.input ? m.ext.data() : m.ms->internal_buffer_.data(), n);
  std::cout << out.str().substr(1) << "\n";
  delete m.ms;
}

// typed round trips through the real operators: oracle only (values must come back bit-identical)
template <typename T> static bool rt_pod(T const &x)
{
  cvm::memory_stream os; os << x;
  cvm::memory_stream is(os.length(), os.output_buffer());
  T y; memset((void *) &y, 0, sizeof(T)); is >> y;
  return bool(is) && memcmp(&x, &y, sizeof(T)) == 0 && os.length() == sizeof(T) && is.tellg() == os.length();
}
template <typename T> static std::string rt_vec(std::vector<T> const &x)
{
  cvm::memory_stream os; os.internal_buffer_.reserve(CAP); os << x;
  size_t expect = sizeof(size_t) + x.size() * sizeof(T);
  std::ostringstream o;
  if (os.length() != expect || os.length() > os.internal_buffer_.size()) {
    o << "differ length=" << os.length() << " bufsize=" << os.internal_buffer_.size() << " expected=" << expect;
    return o.str();
  }
  cvm::memory_stream is(os.length(), os.output_buffer());
  std::vector<T> y(x.size() + 2); memset((void *) y.data(), 0xee, y.size() * sizeof(T));   // a destination with previous contents
  is >> y;
  if (!is) return "differ read-failed";
  if (y.size() != x.size() || (x.size() && memcmp(x.data(), y.data(), x.size() * sizeof(T)))) return "differ values";
  return "same";
}
// several vectors of one type written one after the other (lengths given), read back into ONE reused destination
template <typename T, typename MK> static std::string rt_vec_seq(std::vector<int> const &lens, MK mk)
{
  cvm::memory_stream os; os.internal_buffer_.reserve(CAP);
  std::vector<std::vector<T> > xs;
  int c = 0;
  for (size_t i = 0; i < lens.size(); i++) { std::vector<T> x; for (int j = 0; j < lens[i]; j++) x.push_back(mk(++c)); xs.push_back(x); os << x; }
  cvm::memory_stream is(os.length(), os.output_buffer());
  std::vector<T> y(2); memset((void *) y.data(), 0xee, y.size() * sizeof(T));
  for (size_t i = 0; i < xs.size(); i++) {
    is >> y;
    std::ostringstream o;
    if (!is) { o << "differ read-failed at " << i; return o.str(); }
    if (y.size() != xs[i].size() || (y.size() && memcmp(xs[i].data(), y.data(), y.size() * sizeof(T)))) {
      o << "differ at vector " << i << " written length " << xs[i].size() << " read length " << y.size(); return o.str(); }
  }
  return "same";
}
static std::string rt_vector1d_seq(std::vector<int> const &lens, bool as_colvarvalue)
{
  cvm::memory_stream os; os.internal_buffer_.reserve(CAP);
  std::vector<cvm::vector1d<cvm::real> > xs;
  int c = 0;
  for (size_t i = 0; i < lens.size(); i++) {
    cvm::vector1d<cvm::real> x(lens[i]); for (int j = 0; j < lens[i]; j++) x[j] = 0.25 * (++c);
    xs.push_back(x);
    if (as_colvarvalue) { colvarvalue cvx(x, colvarvalue::type_vector); os << cvx; } else { os << x; }
  }
  cvm::memory_stream is(os.length(), os.output_buffer());
  cvm::vector1d<cvm::real> y(2); y[0] = y[1] = -7.0;
  colvarvalue cvy(y, colvarvalue::type_vector);
  for (size_t i = 0; i < xs.size(); i++) {
    if (as_colvarvalue) { is >> cvy; } else { is >> y; }
    cvm::vector1d<cvm::real> const &got = as_colvarvalue ? cvy.vector1d_value : y;
    std::ostringstream o;
    if (!is) { o << "differ read-failed at " << i; return o.str(); }
    bool ok = got.size() == xs[i].size();
    for (size_t j = 0; ok && j < got.size(); j++) ok = (got[j] == xs[i][j]);
    if (!ok) { o << "differ at vector " << i << " written length " << xs[i].size() << " read length " << got.size(); return o.str(); }
  }
  return "same";
}
static std::string rt_string_seq(std::vector<int> const &lens)
{
  cvm::memory_stream os; os.internal_buffer_.reserve(CAP);
  std::vector<std::string> xs;
  for (size_t i = 0; i < lens.size(); i++) { xs.push_back(std::string(lens[i], 'a' + (char) (i % 20))); os << xs.back(); }
  cvm::memory_stream is(os.length(), os.output_buffer());
  std::string y("previous contents");
  for (size_t i = 0; i < xs.size(); i++) {
    is >> y;
    std::ostringstream o;
    if (!is) { o << "differ read-failed at " << i; return o.str(); }
    if (y != xs[i]) { o << "differ at string " << i << " written length " << xs[i].size() << " read length " << y.size(); return o.str(); }
  }
  return "same";
}

static void run_ty(std::vector<std::string> const &a)
{
  std::string ty = a[0];
  std::vector<double> v;
  for (size_t i = 1; i < a.size(); i++) v.push_back(strtod(a[i].c_str(), NULL));
  while (v.size() < 4) v.push_back(0.0);
  std::string res = "?";
  if (ty.compare(0, 4, "seq_") == 0) {
    std::vector<int> lens; for (size_t i = 1; i < a.size(); i++) lens.push_back(atoi(a[i].c_str()));
    if (ty == "seq_vec_double") res = rt_vec_seq<double>(lens, [](int c) { return 0.5 * c; });
    else if (ty == "seq_vec_int") res = rt_vec_seq<int>(lens, [](int c) { return c; });
    else if (ty == "seq_vec_size_t") res = rt_vec_seq<size_t>(lens, [](int c) { return (size_t) c; });
    else if (ty == "seq_vec_float") res = rt_vec_seq<float>(lens, [](int c) { return 0.5f * c; });
    else if (ty == "seq_vec_char") res = rt_vec_seq<char>(lens, [](int c) { return (char) ('a' + c % 26); });
    else if (ty == "seq_vec_rvector") res = rt_vec_seq<cvm::rvector>(lens, [](int c) { return cvm::rvector(c, 0.5 * c, -c); });
    else if (ty == "seq_vector1d") res = rt_vector1d_seq(lens, false);
    else if (ty == "seq_colvarvalue_vector") res = rt_vector1d_seq(lens, true);
    else if (ty == "seq_string") res = rt_string_seq(lens);
    std::cout << res << "\n";
    return;
  }
  if (ty == "double") res = rt_pod<double>(v[0]) ? "same" : "differ";
  else if (ty == "int") res = rt_pod<int>((int) v[0]) ? "same" : "differ";
  else if (ty == "size_t") res = rt_pod<size_t>((size_t) v[0]) ? "same" : "differ";
  else if (ty == "uint32") res = rt_pod<uint32_t>((uint32_t) v[0]) ? "same" : "differ";
  else if (ty == "bool") res = rt_pod<bool>(v[0] != 0) ? "same" : "differ";
  else if (ty == "rvector") res = rt_pod<cvm::rvector>(cvm::rvector(v[0], v[1], v[2])) ? "same" : "differ";
  else if (ty == "quaternion") res = rt_pod<cvm::quaternion>(cvm::quaternion(v[0], v[1], v[2], v[3])) ? "same" : "differ";
  else if (ty == "vec_double") res = rt_vec<double>(std::vector<double>(v.begin(), v.begin() + (a.size() - 1)));
  else if (ty == "vec_size_t") { std::vector<size_t> x; for (size_t i = 0; i + 1 < a.size(); i++) x.push_back((size_t) v[i]); res = rt_vec<size_t>(x); }
  else if (ty == "vec_int") { std::vector<int> x; for (size_t i = 0; i + 1 < a.size(); i++) x.push_back((int) v[i]); res = rt_vec<int>(x); }
  else if (ty == "vec_float") { std::vector<float> x; for (size_t i = 0; i + 1 < a.size(); i++) x.push_back((float) v[i]); res = rt_vec<float>(x); }
  else if (ty == "vec_char") { std::vector<char> x; for (size_t i = 0; i + 1 < a.size(); i++) x.push_back((char) v[i]); res = rt_vec<char>(x); }
  else if (ty == "vec_rvector") { std::vector<cvm::rvector> x; for (size_t i = 0; i + 3 < a.size(); i += 3) x.push_back(cvm::rvector(v[i], v[i + 1], v[i + 2])); res = rt_vec<cvm::rvector>(x); }
  else if (ty == "vector1d") {
    cvm::vector1d<cvm::real> x(a.size() - 1), y;
    for (size_t i = 0; i + 1 < a.size(); i++) x[i] = v[i];
    cvm::memory_stream os; os << x;
    cvm::memory_stream is(os.length(), os.output_buffer()); is >> y;
    bool ok = bool(is) && x.size() == y.size();
    for (size_t i = 0; ok && i < x.size(); i++) ok = (memcmp(&x[i], &y[i], sizeof(double)) == 0);
    res = ok ? "same" : "differ";
  }
  else if (ty == "colvarvalue_scalar" || ty == "colvarvalue_3vector" || ty == "colvarvalue_quaternion" || ty == "colvarvalue_vector") {
    colvarvalue x, y;
    if (ty == "colvarvalue_scalar") { x = colvarvalue(v[0]); y.type(colvarvalue::type_scalar); }
    else if (ty == "colvarvalue_3vector") { x = colvarvalue(cvm::rvector(v[0], v[1], v[2]), colvarvalue::type_3vector); y.type(colvarvalue::type_3vector); }
    else if (ty == "colvarvalue_quaternion") { x = colvarvalue(cvm::quaternion(v[0], v[1], v[2], v[3]), colvarvalue::type_quaternionderiv); y.type(colvarvalue::type_quaternionderiv); }
    else { cvm::vector1d<cvm::real> w(a.size() - 1); for (size_t i = 0; i + 1 < a.size(); i++) w[i] = v[i]; x = colvarvalue(w, colvarvalue::type_vector); y.type(colvarvalue::type_vector); y.vector1d_value.resize(w.size()); }
    cvm::memory_stream os; os << x;
    cvm::memory_stream is(os.length(), os.output_buffer()); is >> y;
    bool ok = bool(is) && is.tellg() == os.length() && x.type() == y.type();
    if (ok) {
      switch (x.type()) {
      case colvarvalue::type_scalar: ok = memcmp(&x.real_value, &y.real_value, 8) == 0; break;
      case colvarvalue::type_3vector: ok = memcmp(&x.rvector_value, &y.rvector_value, 24) == 0; break;
      case colvarvalue::type_quaternionderiv: ok = memcmp(&x.quaternion_value, &y.quaternion_value, 32) == 0; break;
      default:
        ok = x.vector1d_value.size() == y.vector1d_value.size();
        for (size_t i = 0; ok && i < x.vector1d_value.size(); i++) ok = memcmp(&x.vector1d_value[i], &y.vector1d_value[i], 8) == 0;
      }
    }
    res = ok ? "same" : "differ";
  }
  std::cout << res << "\n";
}

int main(int argc, char **argv)
{
  vsim_engine eng; eng.resize(1);
  vsim_proxy *proxy = new vsim_proxy(&eng, true);   // colvarvalue needs cvm::main()
  std::string line;
  while (std::getline(std::cin, line)) {
    std::istringstream is(line);
    std::string cmd; if (!(is >> cmd)) continue;
    std::vector<std::string> a; std::string w; while (is >> w) a.push_back(w);
    if (cmd == "MS" && a.size()) run_ms(a);
    else if (cmd == "TY" && a.size()) { run_ty(a); cvm::clear_error(); }
    else std::cout << "?\n";
    std::cout.flush();
  }
  delete proxy;
  return 0;
}
