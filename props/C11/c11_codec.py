# C11 (a): correspondence and property oracle for cvm::memory_stream.
import os, struct
import vcommon as V

SIZES = [1, 2, 3, 4, 5, 7, 8, 9, 12, 16, 24, 32]
SIG_VEC = "memstream.write_vector-elem_size!=8"
SIG_OVERRUN = "memstream.write_vector-elem_size>8-cursor-beyond-buffer"
SIG_THROW = "memstream.read_vector-length-wrap-throws"


def hx(b):
    return bytes(b).hex()


def le64(n):
    return struct.pack("<Q", n)


def enc(item):
    """the documented format (independent of the model): object = its bytes; string/vector = 8-byte
    little-endian count followed by the payload"""
    k = item[0]
    if k == "o":
        return item[1]
    if k == "s":
        return le64(len(item[1])) + item[1]
    return le64(len(item[2])) + b"".join(item[2])


def wop(item):
    k = item[0]
    if k == "o":
        return "wo:" + hx(item[1])
    if k == "s":
        return "ws:" + hx(item[1])
    return "wv:%d:%d:%s" % (item[1], len(item[2]), hx(b"".join(item[2])))


def rop(item):
    k = item[0]
    if k == "o":
        return "ro:%d" % len(item[1])
    if k == "s":
        return "rs"
    return "rv:%d" % item[1]


def expect_tok(item):
    k = item[0]
    if k == "o":
        return "B:" + hx(item[1])
    if k == "s":
        return "B:" + hx(item[1])
    return "V:%d:%s" % (len(item[2]), hx(b"".join(item[2])))


def rbytes(r, n):
    m = r.random()
    if m < 0.2:
        return bytes([0] * n)
    if m < 0.4:
        return bytes([255] * n)
    return bytes(r.randrange(256) for _ in range(n))


def gen_item(r, sizes8=False):
    k = r.choice("oossvvvv")
    if k == "o":
        return ("o", rbytes(r, r.choice(SIZES)))
    if k == "s":
        return ("s", rbytes(r, r.choice([0, 0, 1, 3, 7, 8, 9, 20])))
    sz = 8 if (sizes8 or r.random() < 0.45) else r.choice(SIZES)
    n = r.choice([0, 0, 1, 1, 2, 3, 5, 6])
    return ("v", sz, [rbytes(r, sz) for _ in range(n)])


def gen_cases(r, n):
    """returns list of (line, meta)"""
    out = []
    for k in range(n):
        m = r.random()
        if m < 0.40:
            # write a list of items, re-open, read them back with the same types, one read past the end
            items = [gen_item(r, sizes8=(r.random() < 0.5)) for _ in range(r.randint(1, 5))]
            ops = [wop(i) for i in items] + ["re"] + [rop(i) for i in items] + [r.choice(["ro:1", "rs", "rv:8", "ro:8"])]
            out.append(("MS default " + " ".join(ops), {"kind": "rt", "items": items}))
        elif m < 0.46:
            # ONE reused destination: vectors of one element size and lengths such as 0,1,3,0,4,2,0 written one after the
            # other and read back into the same std::vector (the harness keeps one destination per element size, never
            # empty to begin with): an empty vector after a non-empty one must empty the destination
            sz = r.choice(SIZES)
            lens = [r.choice([0, 0, 1, 2, 3, 4, 6]) for _ in range(r.randint(3, 7))]
            if 0 not in lens[1:]:
                lens[r.randrange(1, len(lens))] = 0
            if r.random() < 0.5:
                lens[0] = r.choice([1, 3, 5])
            items = [("v", sz, [rbytes(r, sz) for _ in range(n)]) for n in lens]
            ops = [wop(i) for i in items] + ["re"] + [rop(i) for i in items]
            out.append(("MS default " + " ".join(ops), {"kind": "rt", "items": items, "reuse": True}))
        elif m < 0.60:
            # proper prefix of a valid stream (valid by the documented format), read with the original types
            items = [gen_item(r) for _ in range(r.randint(1, 3))]
            data = b"".join(enc(i) for i in items)
            if len(data) == 0:
                continue
            cut = r.randrange(len(data))
            # aim at the boundaries: just inside a length prefix, just after it, one byte short
            bounds = []
            pos = 0
            for i in items:
                e = enc(i)
                bounds += [pos, pos + 1, pos + 7, pos + 8, pos + 9, pos + len(e) - 1]
                pos += len(e)
            bounds = [b for b in bounds if 0 <= b < len(data)]
            if bounds and r.random() < 0.7:
                cut = r.choice(bounds)
            ops = ["in:" + hx(data[:cut])] + [rop(i) for i in items]
            out.append(("MS default " + " ".join(ops), {"kind": "trunc", "items": items, "cut": cut, "total": len(data)}))
        elif m < 0.80:
            # crafted length prefixes
            sz = r.choice(SIZES)
            payload = rbytes(r, r.choice([0, 1, 7, 8, 16, 24, 40]))
            fit = len(payload) // sz
            W = 1 << 64
            cands = [fit, fit + 1, max(fit - 1, 0), 0, 1 << 61, (1 << 61) + 1, 1 << 63, W - 1, 1 << 60, (1 << 62) + fit,
                     (W // sz) + 1, -(-W // sz), -(-W // sz) + fit, ((1 << 63) - 1) // sz, ((1 << 63) - 1) // sz + 1,
                     r.randrange(W)]
            n = r.choice(cands) % W
            data = le64(n) + payload
            rd = r.choice(["rv:%d" % sz, "rv:%d" % sz, "rs"])
            ops = ["in:" + hx(data), rd, r.choice(["ro:1", "rs", "rv:8", "cl", "ro:4"]), r.choice(["ro:1", "ro:8", "rv:1"])]
            out.append(("MS default " + " ".join(ops), {"kind": "malformed", "sz": sz, "n": n, "payload": len(payload), "read": rd}))
        elif m < 0.84:
            # the overflow window of has_remaining: a length word c with read_pos_ + c >= 2^64 (a bound check written as
            # read_pos_ + c <= data_length_ would wrap and pass), after a first read that moves the position
            W = 1 << 64
            k = r.choice([0, 1, 3, 4, 8, 12, 16])
            payload = rbytes(r, r.choice([0, 1, 4, 8, 12]))
            pos = k + 8
            sz = r.choice([1, 1, 2, 4, 8])
            c = r.choice([W - pos, W - pos + 1, W - pos - 1, W - 1, W - 8, W - pos + len(payload), W - pos + len(payload) + 1, W - 2 * pos])
            n = (c // sz) % W if sz > 1 else c % W
            data = rbytes(r, k) + le64(n) + payload
            rd = "rs" if sz == 1 and r.random() < 0.6 else "rv:%d" % sz
            ops = ["in:" + hx(data)] + (["ro:%d" % k] if k else []) + [rd, r.choice(["ro:1", "rs", "rv:8", "ro:4"])]
            out.append(("MS default " + " ".join(ops), {"kind": "malformed", "sz": sz, "n": n, "payload": len(payload), "read": rd}))
        elif m < 0.90:
            # small max_length: badbit, writes after an error, then re-open and read
            items = [gen_item(r, sizes8=(r.random() < 0.5)) for _ in range(r.randint(1, 5))]
            # aim at the exact fit of the first k items (and one byte either side)
            k = r.randint(1, len(items))
            fit = sum(len(enc(i)) for i in items[:k])
            mx = max(0, fit + r.choice([0, 0, 0, -1, 1])) if r.random() < 0.8 else r.choice([0, 1, 7, 8, 9, 15, 16, 17, 24, 31, 40])
            ops = [wop(i) for i in items] + ["re"] + [rop(i) for i in items]
            out.append(("MS %d %s" % (mx, " ".join(ops)), {"kind": "max", "items": items, "max": mx}))
        else:
            # reads interleaved with failures, clear, seek inside the data
            data = rbytes(r, r.choice([0, 1, 4, 8, 9, 16, 23]))
            ops = ["in:" + hx(data)]
            for _ in range(r.randint(2, 7)):
                c = r.random()
                if c < 0.5:
                    ops.append("ro:%d" % r.choice(SIZES))
                elif c < 0.65:
                    ops.append("rs")
                elif c < 0.8:
                    ops.append("rv:%d" % r.choice(SIZES))
                elif c < 0.9:
                    ops.append("sk:%d" % r.randint(0, len(data)))
                else:
                    ops.append("cl")
            out.append(("MS default " + " ".join(ops), {"kind": "mixed", "len": len(data)}))
    return out


SEQ_TYPES = ["seq_vec_double", "seq_vec_int", "seq_vec_size_t", "seq_vec_float", "seq_vec_char", "seq_vec_rvector", "seq_vector1d",
             "seq_colvarvalue_vector", "seq_string"]


def gen_typed_seq(r, n):
    """sequences of values of one vector type (and of strings) read back into ONE reused destination through the real operators"""
    out = []
    for k in range(n):
        ty = SEQ_TYPES[k % len(SEQ_TYPES)]
        lens = [r.choice([0, 0, 1, 2, 3, 4]) for _ in range(r.randint(3, 8))]
        if k < len(SEQ_TYPES):
            lens = [0, 1, 3, 0, 4, 2, 0]
        elif 0 not in lens[1:]:
            lens[r.randrange(1, len(lens))] = 0
        out.append(("TY %s %s" % (ty, " ".join(map(str, lens))), {"kind": "typed", "type": ty, "n": len(lens)}))
    return out


def gen_typed(r, n):
    tys = ["double", "int", "size_t", "uint32", "bool", "rvector", "quaternion", "vec_double", "vec_size_t", "vec_int",
           "vec_float", "vec_char", "vec_rvector", "vector1d", "colvarvalue_scalar", "colvarvalue_3vector",
           "colvarvalue_quaternion", "colvarvalue_vector"]
    out = []
    for k in range(n):
        ty = tys[k % len(tys)]
        if ty.startswith("vec_") or ty in ("vector1d", "colvarvalue_vector"):
            cnt = r.choice([0, 1, 2, 3, 5, 6])
            if ty == "vec_rvector":
                cnt *= 3
            if ty in ("vector1d", "colvarvalue_vector"):
                cnt = max(cnt, 1)
        else:
            cnt = 4
        vals = [float(r.randint(0, 100)) if ty in ("vec_char", "vec_int", "vec_size_t", "int", "size_t", "uint32", "bool")
                else V.dyadic(r, -1000, 1000) for _ in range(cnt)]
        out.append(("TY %s %s" % (ty, " ".join(repr(v) for v in vals)), {"kind": "typed", "type": ty, "n": cnt}))
    return out


def parse_tokens(line):
    """-> (list of (kind, result, len, size, pos, bits), overrun, bufhex)"""
    toks = []
    overrun = False
    buf = None
    for t in line.split():
        if t == "OVERRUN":
            overrun = True
        elif t.startswith("buf="):
            buf = t[4:]
        else:
            kr, st = t.split("|")
            kind, res = kr.split("=", 1)
            ln, size, pos, bits = st.split(",")
            toks.append((kind, res, ln, size, pos, bits))
    return toks, overrun, buf


def oracle(case, meta, impl):
    """property oracle on the implementation alone -> None or (signature, text)"""
    if meta["kind"] == "typed":
        if impl != "same":
            ty = meta["type"]
            return ("memstream.typed-roundtrip:" + ty, "a value of type %s written to a memory_stream and read back: %s" % (ty, impl))
        return None
    try:
        toks, overrun, buf = parse_tokens(impl)
    except Exception:
        return ("memstream.unit-output", "unparsable output of the unit driver: %r" % impl[:200])
    if any(t[1] == "T" for t in toks):
        return (SIG_THROW, "read_vector/read_object threw std::length_error/bad_alloc out of the library (length prefix %s, element size %s, %s payload bytes)"
                % (meta.get("n"), meta.get("sz"), meta.get("payload")))
    k = meta["kind"]
    if k in ("rt", "max"):
        items = meta["items"]
        bad_sz = [i[1] for i in items if i[0] == "v" and i[1] != 8]
        if overrun:
            if any(s > 8 for s in bad_sz):
                return (SIG_OVERRUN, "after write_vector with element size %s, length() exceeds the buffer size (%s)" % (bad_sz, impl[:160]))
            return ("memstream.overrun", "length() exceeds the buffer size: %s" % impl[:200])
    if k == "max":
        # writes succeed exactly while the data fits in max_length; after the first refusal nothing is written
        want = b""
        for i in items:
            if len(want) + len(enc(i)) <= meta["max"]:
                want += enc(i)
            else:
                break
        if buf != hx(want):
            return ("memstream.max_length", "with max_length %d the stream holds %s, expected the items that fit: %s" % (meta["max"], buf, hx(want)))
    if k == "rt":
        want = b"".join(enc(i) for i in items)
        ok = (buf == hx(want))
        reads = [t for t in toks if t[0] in ("ro", "rs", "rv")]
        for i, t in zip(items, reads):
            if t[1] != expect_tok(i):
                ok = False
        if ok and len(reads) >= len(items):
            # position at the end, good state after the last matching read; the extra read past the end must fail
            last = reads[len(items) - 1]
            if last[4] != last[2] or last[5] != "---":
                ok = False
            if len(reads) > len(items) and reads[len(items)][1] != "N":
                return ("memstream.read-past-end", "a read after the last item delivered %s" % reads[len(items)][1])
        if not ok and buf == hx(want):
            # the bytes are right, a value read back is not: e.g. a destination that keeps (part of) its previous contents
            firstbad = next((j for j, (i, t) in enumerate(zip(items, reads)) if t[1] != expect_tok(i)), None)
            return ("memstream.read-back-differs", "the stream holds the documented bytes, but read %s of the sequence delivered %s instead of %s "
                    "(vector reads go into one reused destination per element size that is never empty to begin with): %s"
                    % (firstbad, reads[firstbad][1][:60] if firstbad is not None else "?", expect_tok(items[firstbad])[:60] if firstbad is not None else "?", impl[:200]))
        if not ok:
            if bad_sz:
                return (SIG_VEC, "vector(s) with element size %s do not round trip: bytes %s, expected %s" % (bad_sz, buf, hx(want)))
            return ("memstream.roundtrip", "values written are not the values read back, or the bytes are not the documented format: %s" % impl[:300])
    elif k == "trunc":
        items = meta["items"]
        reads = [t for t in toks if t[0] in ("ro", "rs", "rv")]
        delivered = 0
        for i, t in zip(items, reads):
            if t[1] == "N":
                break
            if t[1] != expect_tok(i):
                return ("memstream.truncation-wrong-value", "a truncated stream (cut at %d of %d) delivered a value that was not written: %s" % (meta["cut"], meta["total"], t[1][:80]))
            delivered += 1
        if delivered == len(items):
            return ("memstream.truncation-accepted", "every read succeeded on a stream cut at %d of %d bytes" % (meta["cut"], meta["total"]))
        t = reads[delivered]
        if t[5] == "---":
            return ("memstream.truncation-accepted", "the failing read left the stream in the good state (cut %d of %d)" % (meta["cut"], meta["total"]))
    # common: the read position never leaves the data
    for t in toks:
        try:
            if int(t[4]) > int(t[2]) and not overrun:
                return ("memstream.position-beyond-data", "read position %s beyond data length %s" % (t[4], t[2]))
        except ValueError:
            pass
    return None


def run_codec(run, model, unit, quick):
    r = V.rng("C11codec")
    cases = []
    cp = os.path.join(V.ROOT, "corpus", "C11_unit.txt")
    if os.path.exists(cp):
        for l in open(cp):
            l = l.strip()
            if l and not l.startswith("#"):
                meta = {"kind": "corpus"}
                if "##" in l:
                    l, m = l.split("##", 1)
                    meta = eval(m.strip(), {"__builtins__": {}}, {})
                    l = l.strip()
                cases.append((l, meta))
    cases += gen_cases(r, 2500 if quick else 25000)
    cases += gen_typed(r, 90 if quick else 1200)
    cases += gen_typed_seq(r, 45 if quick else 450)
    lines = [c for c, _ in cases]
    rc1, impl, e1 = V.run_lines(unit, lines, timeout=900)
    ms_idx = [i for i, c in enumerate(lines) if c.startswith("MS")]
    rc2, mod, e2 = V.run_lines(model, [lines[i] for i in ms_idx], timeout=900)
    if len(impl) != len(lines):
        k = len(impl)
        run.violation("memstream.unit-crash", "the C11 unit driver died (rc=%d) on case %d: %s  %s" % (rc1, k, lines[k] if k < len(lines) else "", e1[-300:]),
                      {"kind": "unit", "case": lines[k] if k < len(lines) else None})
        return
    mpos = {i: j for j, i in enumerate(ms_idx)}
    nviol = {}
    nmis = 0
    for i, ((c, meta), io) in enumerate(zip(cases, impl)):
        k = meta.get("kind", "corpus")
        nontriv = k in ("rt", "trunc", "malformed", "max", "typed", "corpus") or "N|" in io
        run.count(c, nontriv)
        run.dist("codec:" + k)
        if k == "rt" or k == "max":
            for it in meta["items"]:
                if it[0] == "v":
                    run.dist("codec:vector_elem_size=%d" % it[1])
        bad = oracle(c, meta, io) if meta.get("kind") != "corpus" else None
        if bad:
            nviol[bad[0]] = nviol.get(bad[0], 0) + 1
            run.violation(bad[0], bad[1], {"kind": "unit", "case": c, "impl": io})
        if i in mpos:
            mo = mod[mpos[i]] if mpos[i] < len(mod) else "<none>"
            if mo != io:
                nmis += 1
                if not bad:
                    # a disagreement that no oracle turned into a failing input of the property itself
                    run.mismatch("codec-tie", c, io, mo)
    run.sample({"codec_case": lines[len(lines) // 2], "impl": impl[len(lines) // 2]})
    run.cov["correspondence"].update({"codec_cases": len(ms_idx), "typed_roundtrips": len(lines) - len(ms_idx),
                                      "codec_oracle_failures_by_signature": nviol, "codec_model_disagreements": nmis})
