(* C11 model driver: runs the extracted memory_stream model (and the state-file replace protocol)
   on the same case lines as props/C11/unit.cpp / the vsim scenarios. *)
open Model

let rec pos_of_int (n : int) : positive =
  if n <= 1 then XH else if n land 1 = 0 then XO (pos_of_int (n lsr 1)) else XI (pos_of_int (n lsr 1))
let n_of_int (k : int) : n = if k <= 0 then N0 else Npos (pos_of_int k)
let rec int_of_pos (p : positive) : int =
  match p with XH -> 1 | XO q -> 2 * int_of_pos q | XI q -> 2 * int_of_pos q + 1
let int_of_n (x : n) : int = match x with N0 -> 0 | Npos p -> int_of_pos p
(* decimal printing of an N that may exceed the OCaml int range *)
let rec string_of_pos_big (p : positive) : string =
  (* only used for values that fit; larger ones are printed as "big" *)
  let rec bits p = match p with XH -> 1 | XO q | XI q -> 1 + bits q in
  if bits p > 61 then "big" else string_of_int (int_of_pos p)
let string_of_n (x : n) : string = match x with N0 -> "0" | Npos p -> string_of_pos_big p
let rec nat_of_int (k : int) : nat = if k <= 0 then O else S (nat_of_int (k - 1))
let rec int_of_nat (k : nat) : int = match k with O -> 0 | S m -> 1 + int_of_nat m

let words (s : string) : string list = List.filter (fun w -> w <> "") (String.split_on_char ' ' (String.trim s))

let unhex (h : string) : n list =
  let k = String.length h / 2 in
  List.init k (fun i -> n_of_int (int_of_string ("0x" ^ String.sub h (2 * i) 2)))
let tohex (b : n list) : string = String.concat "" (List.map (fun x -> Printf.sprintf "%02x" (int_of_n x)) b)

let rec split_n k l = if k = 0 then ([], l) else match l with [] -> ([], []) | x :: r -> let (a, b) = split_n (k - 1) r in (x :: a, b)
let rec chunk sz n l = if n = 0 then [] else let (a, b) = split_n sz l in a :: chunk sz (n - 1) b

let rec take_list k l = if k <= 0 then [] else match l with [] -> [] | x :: r -> x :: take_list (k - 1) r

let state_str (s : mstream) : string =
  Printf.sprintf "%s,%d,%s,%s%s%s" (string_of_n s.ms_len) (List.length s.ms_buf) (string_of_n s.ms_pos)
    (if s.ms_eof then "e" else "-") (if s.ms_fail then "f" else "-") (if s.ms_bad then "b" else "-")

let parse_op (t : string) : op option =
  let kind = String.sub t 0 2 in
  let arg = if String.length t > 3 then String.sub t 3 (String.length t - 3) else "" in
  match kind with
  | "wo" -> Some (OWObj (unhex arg))
  | "ws" -> Some (OWStr (unhex arg))
  | "wv" -> (match String.split_on_char ':' arg with
      | [sz; n; h] -> let sz = int_of_string sz and n = int_of_string n in
        Some (OWVec (n_of_int sz, chunk sz n (unhex h)))
      | [sz; n] -> Some (OWVec (n_of_int (int_of_string sz), chunk (int_of_string sz) (int_of_string n) []))
      | _ -> None)
  | "ro" -> Some (ORObj (n_of_int (int_of_string arg)))
  | "rs" -> Some ORStr
  | "rv" -> Some (ORVec (n_of_int (int_of_string arg)))
  | "sk" -> Some (OSeek (n_of_int (int_of_string arg)))
  | "cl" -> Some OClear
  | "re" -> Some OReopen
  | _ -> None

let res_str (r : rres) : string =
  match r with
  | RNone -> "N"
  | RBytes v -> "B:" ^ tohex v
  | RVec v -> Printf.sprintf "V:%d:%s" (List.length v) (tohex (List.concat v))
  | RThrow _ -> "T"

let run_ms (a : string list) : string =
  match a with
  | [] -> "?"
  | mx :: ops ->
    let mx = if mx = "default" then dEFAULT_MAX else n_of_int (int_of_string mx) in
    let s = ref (empty_stream mx) in
    let out = Buffer.create 256 in
    let stopped = ref false in
    let reopened = ref false in
    (* one reused destination per element size for the vector reads of a case, initially three elements of 0xee bytes *)
    let dests : (int, n list list) Hashtbl.t = Hashtbl.create 7 in
    let dest_of sz = try Hashtbl.find dests sz with Not_found -> List.init 3 (fun _ -> List.init sz (fun _ -> n_of_int 238)) in
    List.iter (fun t ->
        if not !stopped then begin
          let kind = String.sub t 0 2 in
          let res =
            if kind = "in" then begin
              let arg = if String.length t > 3 then String.sub t 3 (String.length t - 3) else "" in
              s := input_stream (unhex arg); reopened := true; "-" end
            else
            match parse_op t with
            | None -> "?"
            | Some OReopen when !reopened -> "?"
            | Some (ORVec szn) ->
              let sz = int_of_n szn in
              let ((r, s'), d') = read_vector_into !s szn (dest_of sz) in
              s := s'; Hashtbl.replace dests sz d';
              (match r with
               | RVec _ -> Printf.sprintf "V:%d:%s" (List.length d') (tohex (List.concat d'))   (* what the destination holds now *)
               | _ -> res_str r)
            | Some o ->
              let (r, s') = run_op !s o in
              s := s';
              (match o with
               | OReopen -> reopened := true; "-"
               | ORObj _ | ORStr | ORVec _ -> res_str r
               | _ -> "-") in
          Buffer.add_string out (Printf.sprintf " %s=%s|%s" kind res (state_str !s));
          if int_of_n (!s).ms_len > List.length (!s).ms_buf then begin
            Buffer.add_string out " OVERRUN"; stopped := true end
        end) ops;
    let nb = min (int_of_n (!s).ms_len) (List.length (!s).ms_buf) in
    Buffer.add_string out (" buf=" ^ tohex (take_list nb (!s).ms_buf));
    let r = Buffer.contents out in
    String.sub r 1 (String.length r - 1)


(* ---- replace protocol: CR f:<cur>:<old>:<tmp> s:<ver>:<c1,c2|->:<tail> ... p:<o,e,k<j>,..|-> / s:... p:... *)
let file_str (f : file option) : string =
  match f with None -> "-" | Some x -> Printf.sprintf "%d.%d.%d" (int_of_n x.f_ver) (int_of_n x.f_bytes) (int_of_n x.f_total)
let fs_str (fs : fsys) : string = Printf.sprintf "cur:%s old:%s tmp:%s" (file_str fs.cur) (file_str fs.old) (file_str fs.tmp)
let parse_file (t : string) : file option =
  if t = "-" then None else
    match String.split_on_char '.' t with
    | [v; b; tt] -> Some { f_ver = n_of_int (int_of_string v); f_bytes = n_of_int (int_of_string b); f_total = n_of_int (int_of_string tt) }
    | _ -> None
let parse_outcome (t : string) : outcome =
  if t = "o" then OOk else if t = "e" then OErr
  else OKill (n_of_int (int_of_string (String.sub t 1 (String.length t - 1))))
let sysop_str (o : sysop) : string =
  match o with SUnlink -> "U" | SAccessT -> "B" | SAccess -> "A" | SRename -> "R" | SRenameT -> "T" | SOpen -> "O" | SClose -> "C"
             | SWrite k -> "W" ^ string_of_int (int_of_n k)
let result_str (r : result) : string = match r with Done true -> "ok" | Done false -> "err" | Dead -> "dead"
let rec split_on (sep : string) (l : string list) : string list list =
  match l with
  | [] -> [[]]
  | x :: r -> let rest = split_on sep r in
    if x = sep then [] :: rest else (match rest with h :: t -> (x :: h) :: t | [] -> [[x]])
let run_cr (a : string list) : string =
  match a with
  | [] -> "?"
  | f0 :: rest ->
    let fs0 = (match String.split_on_char ':' f0 with
        | [_; c; o; t] -> { cur = parse_file c; old = parse_file o; tmp = parse_file t }
        | [_; c; o] -> { cur = parse_file c; old = parse_file o; tmp = None }
        | _ -> empty_fs) in
    let writer = if List.mem "w:bias" rest then w_bias else if List.mem "w:replica" rest then w_replica else w_restart in
    let sessions = List.map (fun toks ->
        let saves = List.filter_map (fun t ->
            if String.length t > 2 && String.sub t 0 2 = "s:" then
              (match String.split_on_char ':' t with
               | [_; v; ch; tl] ->
                 let chunks = if ch = "-" then [] else List.map (fun c -> n_of_int (int_of_string c)) (String.split_on_char ',' ch) in
                 Some { s_ver = n_of_int (int_of_string v); s_chunks = chunks; s_tail = n_of_int (int_of_string tl) }
               | _ -> None)
            else None) toks in
        let plan = List.concat (List.filter_map (fun t ->
            if String.length t >= 2 && String.sub t 0 2 = "p:" then
              let b = String.sub t 2 (String.length t - 2) in
              Some (if b = "-" || b = "" then [] else List.map parse_outcome (String.split_on_char ',' b))
            else None) toks) in
        (saves, plan)) (split_on "/" rest) in
    (* run the sessions one by one to print the directory after each *)
    let fs = ref fs0 in
    let outs = List.map (fun (saves, plan) ->
        let (m, rs) = session_w writer (start !fs plan) saves in
        fs := m.m_fs;
        Printf.sprintf "results=%s trace=%s %s safe=%b reg=%s"
          (String.concat "," (List.map result_str rs))
          (String.concat "," (List.map sysop_str m.m_trace))
          (fs_str m.m_fs) (safe m.m_fs)
          (match m.m_reg with NotOpen -> "closed" | Open true -> "open-bad" | Open false -> "open")) sessions in
    String.concat " / " outs

(* ---- text state reader: TX cv:<name>,.. b:<kw>.<type>.<name>.<kind>[.<k<id>|w<n>|b<id> joined by +>],.. t:<tok>,<tok>,..   tok = { | } | <word number> *)
let run_tx (a : string list) : string =
  let field p = List.fold_left (fun acc t ->
      if String.length t >= String.length p && String.sub t 0 (String.length p) = p
      then String.sub t (String.length p) (String.length t - String.length p) else acc) "" a in
  let items s = if s = "" || s = "-" then [] else String.split_on_char ',' s in
  let cvs = List.map (fun x -> n_of_int (int_of_string x)) (items (field "cv:")) in
  let bs = List.filter_map (fun x ->
      match String.split_on_char '.' x with
      | kw :: ty :: nm :: kd :: rest ->
        let layout = match rest with
          | [] -> []
          | lay :: _ -> List.filter_map (fun e ->
              if String.length e < 2 then None else
                let v = int_of_string (String.sub e 1 (String.length e - 1)) in
                match e.[0] with
                | 'k' -> Some (DKey (n_of_int v)) | 'w' -> Some (DWords (nat_of_int v)) | 'b' -> Some (DBlock (n_of_int v))
                | _ -> None) (String.split_on_char '+' lay) in
        Some { b_kw = n_of_int (int_of_string kw); b_type = n_of_int (int_of_string ty);
               b_name = n_of_int (int_of_string nm); b_kind = nat_of_int (int_of_string kd); b_layout = layout }
      | _ -> None) (items (field "b:")) in
  let toks = List.map (fun x -> if x = "{" then TO else if x = "}" then TC else TW (n_of_int (int_of_string x))) (items (field "t:")) in
  if load_c cvs bs toks then "err" else "ok"

(* ---- binary state reader: TB n:<number of variables> b:<kwhex>.<typehex>.<kind>.<nvar>[.<k<keyhex>|o<count of 8-byte objects> joined by +>],.. d:<hex bytes> *)
let run_tb (a : string list) : string =
  let field p = List.fold_left (fun acc t ->
      if String.length t >= String.length p && String.sub t 0 (String.length p) = p
      then String.sub t (String.length p) (String.length t - String.length p) else acc) "" a in
  let items s = if s = "" || s = "-" then [] else String.split_on_char ',' s in
  let ncv = nat_of_int (int_of_string (field "n:")) in
  let bs = List.filter_map (fun x ->
      match String.split_on_char '.' x with
      | kw :: ty :: kd :: nv :: rest ->
        let fields = match rest with
          | [] -> []
          | f :: _ -> List.concat (List.map (fun e ->
              if String.length e < 2 then [] else
                let v = String.sub e 1 (String.length e - 1) in
                match e.[0] with
                | 'k' -> [FKey (unhex v)]
                | 'o' -> List.init (int_of_string v) (fun _ -> FObj (n_of_int 8))
                | 'a' -> [FAny]
                | _ -> []) (String.split_on_char '+' f)) in
        Some { bb_kw = unhex kw; bb_type = unhex ty; bb_kind = nat_of_int (int_of_string kd);
               bb_nvar = nat_of_int (int_of_string nv); bb_fields = fields }
      | _ -> None) (items (field "b:")) in
  if load_bin_c ncv bs (unhex (field "d:")) then "err" else "ok"

let () =
  try
    while true do
      let line = input_line stdin in
      match words line with
      | "MS" :: a -> print_endline (run_ms a)
      | "CR" :: a -> print_endline (run_cr a)
      | "TX" :: a -> print_endline (run_tx a)
      | "TB" :: a -> print_endline (run_tb a)
      | [] -> ()
      | _ -> print_endline "?"
    done
  with End_of_file -> ()
