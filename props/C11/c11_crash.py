# C11 (b)+(c): the state-file replace protocol under injected faults (strace), and damaged state files.
import os, re, shutil, json, subprocess, struct
import vcommon as V

NAME = "out.colvars.state"
TRACE = "trace=access,rename,openat,write,writev,close,unlink"
SIG_SINGLE = "statefile.single-crash-no-complete-state"
SIG_DOUBLE = "statefile.crash-restart-crash-no-complete-state"
SIG_IGNERR = "statefile.ignored-io-error-then-crash-no-complete-state"
SIG_REPORTED = "statefile.save-after-reported-error-then-crash-no-complete-state"
SIG_SILENT = "statefile.save-reports-ok-on-incomplete-file"
SIG_BACKUPNAME = "statefile.backup-not-loadable-under-its-own-name"

CONFIG = """colvar {
  name d
  distanceZ {
    main { atomNumbers 1 }
    ref { dummyAtom (0,0,0) }
    axis (0,0,1)
  }
}
metadynamics {
  name m
  colvars d
  hillWeight 0.1
  newHillFrequency 1
  hillWidth 1.0
  useGrids off
}
harmonic {
  name h
  colvars d
  centers 1.0
  forceConstant 2.0
}
"""


# a second configuration for the damaged-state search: biases whose state holds grids (histogram; metadynamics with grids)
CONFIG_GRID = """colvar {
  name d
  lowerBoundary 0.0
  upperBoundary 4.0
  width 1.0
  distanceZ {
    main { atomNumbers 1 }
    ref { dummyAtom (0,0,0) }
    axis (0,0,1)
  }
}
histogram {
  name hi
  colvars d
}
metadynamics {
  name m
  colvars d
  hillWeight 0.1
  newHillFrequency 1
  hillWidth 1.0
}
"""
# a third one: the biases whose state formats were repaired in round 2 by the C03 slice (ALB, OPES)
CONFIG_EXTRA = """colvar {
  name d
  lowerBoundary 0.0
  upperBoundary 4.0
  width 1.0
  distanceZ {
    main { atomNumbers 1 }
    ref { dummyAtom (0,0,0) }
    axis (0,0,1)
  }
}
alb {
  name al
  colvars d
  centers 1.0
  updateFrequency 4
}
opes_metad {
  name op
  colvars d
  barrier 10.0
  newHillFrequency 1
  gaussianSigma 0.5
}
"""
# ABF on an extended-Lagrangian variable (eABF): the CZAR estimator is on by default and the state holds
# samples/gradient and z_samples/z_gradient grids; variants: CZAR off; ABF not the last object (a restraint follows it)
_EXT_CV = """colvar {
  name d
  lowerBoundary 0.0
  upperBoundary 4.0
  width 1.0
  extendedLagrangian on
  extendedFluctuation 0.5
  extendedTimeConstant 200
  distanceZ {
    main { atomNumbers 1 }
    ref { dummyAtom (0,0,0) }
    axis (0,0,1)
  }
}
"""
_ABF = """abf {
  name a
  colvars d
  fullSamples 2
%s}
"""
_HARM = """harmonic {
  name h
  colvars d
  centers 1.0
  forceConstant 2.0
}
"""
CONFIG_EABF = _EXT_CV + _ABF % ""
CONFIG_EABF_NOCZ = _EXT_CV + _ABF % "  CZARestimator off\n"
CONFIG_EABF_HARM = _EXT_CV + _ABF % "" + _HARM
CONFIG_HIST = CONFIG_GRID[:CONFIG_GRID.index("metadynamics {")]
# shared ABF (multiple-walker): needs a replica interface (vsim `replicas 0 2 -1 -1`: two replicas, no channel; sharedFreq
# is larger than the run, so nothing is ever exchanged); its state has local_* grids and the OPTIONAL last_* section
# more than two of everything, two holders of one kind, unnamed objects with default names: three variables (the second
# unnamed: "colvar2"), two unnamed restraints (harmonic1, harmonic2), two unnamed metadynamics biases (the first, on one
# variable, is NOT the last object; the second on two variables)
def _cv(name, atom):
    return "colvar {\n%s  distanceZ {\n    main { atomNumbers %d }\n    ref { dummyAtom (0,0,0) }\n    axis (0,0,1)\n  }\n}\n" % (
        ("  name %s\n" % name) if name else "", atom)
CONFIG_TWIN = _cv("d", 1) + _cv(None, 2) + _cv("f", 3) + """metadynamics {
  colvars d
  hillWeight 0.1
  newHillFrequency 1
  hillWidth 1.0
  useGrids off
}
harmonic {
  colvars d f
  centers 1.0 1.0
  forceConstant 2.0
}
metadynamics {
  colvars colvar2 f
  hillWeight 0.1
  newHillFrequency 2
  hillWidth 1.0
  useGrids off
}
harmonic {
  colvars colvar2
  centers 1.0
  forceConstant 2.0
}
"""
# thermodynamic integration data of a restraint (colvarbias_ti: histogram + system_forces grids after the configuration)
CONFIG_TI = _EXT_CV + _HARM.replace("  forceConstant 2.0\n", "  forceConstant 2.0\n  writeTIPMF on\n")
NATOMS = {"twin": 4}
POSITIONS = {"twin": ["pos 1 0 0 1.25", "pos 2 0 0 0.5", "pos 3 0 0 2.0"]}
CONFIG_SABF = _EXT_CV + _ABF % "  shared on\n  sharedFreq 1000\n  CZARestimator off\n"
# the grid configuration with other boundaries (8 bins instead of 4): only a target of the cross-configuration loads
CONFIG_GRID8 = CONFIG_GRID.replace("upperBoundary 4.0", "upperBoundary 8.0")
CONFIGS = {"grid8": CONFIG_GRID8, "base": CONFIG, "grid": CONFIG_GRID, "extra": CONFIG_EXTRA, "eabf": CONFIG_EABF, "eabf_nocz": CONFIG_EABF_NOCZ,
           "eabf_harm": CONFIG_EABF_HARM, "hist": CONFIG_HIST, "sabf": CONFIG_SABF, "twin": CONFIG_TWIN, "ti": CONFIG_TI}
PRELUDE = {"extra": ["temperature 300"], "eabf": ["temperature 300"], "eabf_nocz": ["temperature 300"], "eabf_harm": ["temperature 300"],
           "sabf": ["temperature 300", "replicas 0 2 -1 -1"], "ti": ["temperature 300"]}
NBINS = 4   # lowerBoundary 0, upperBoundary 4, width 1


def scenario(sess, name=NAME, distinct=False):
    """sess = {"first": step number to start from, "pre": steps before the first save, "saves": ["text"|"binary", ...]}"""
    cfgname = sess.get("config", "base")
    L = ["unbuffered", "natoms %d" % NATOMS.get(cfgname, 2)] + PRELUDE.get(cfgname, []) + ["new", "config EOF"] + CONFIGS[cfgname].strip("\n").split("\n") + ["EOF",
         "show cv 0 atomf 0 energy 0 bias 0", "setstep %d" % sess["first"]] + POSITIONS.get(cfgname, ["pos 1 0 0 1.25"])
    L += ["step"] * sess["pre"]
    for i, mode in enumerate(sess["saves"]):
        L.append("step")
        fname = ("ref%d.colvars.state" % i) if distinct else name
        if sess.get("writer") == "bias":
            # colvarbias::write_state_prefix: the state of the metadynamics bias alone, to <prefix>.colvars.state
            L.append("script cv bias m save %s" % fname[:-len(".colvars.state")])
        else:
            L.append("save %s %s" % (mode, fname))
    return "\n".join(L) + "\n"


def load_scenario(prefix, config="base", bias=False, how="file"):
    L = ["natoms %d" % NATOMS.get(config, 2)] + PRELUDE.get(config, []) + ["new", "config EOF"] + CONFIGS[config].strip("\n").split("\n") + ["EOF"]
    if bias:
        # colvarbias::read_state_prefix takes the file name itself when <prefix>.colvars.state is not there
        L += ["script cv bias m load %s" % prefix]
    elif how == "buf":
        L += ["loadbuf %s" % prefix]      # set_input_state_buffer() + setup_input()
    elif how == "str":
        L += ["loadstr %s" % prefix]      # input_stream_from_string("input state string") + setup_input()
    else:
        L += ["load %s" % prefix]
    return "\n".join(L) + "\n"


def parse_trace(path, name=NAME):
    """-> list of relevant syscalls: dict(op, sys, occ, n, ret) in order; occ = 1-based occurrence of that syscall
    name among all traced calls of the process.  ops: U unlink(<name>.tmp), B access(<name>.tmp), O open for writing
    (<name>.tmp; <name> on a tree that writes in place), W write to that fd, C its close, A access(<name>),
    R rename(<name>, <name>.old), T rename(<name>.tmp, <name>)"""
    occ = {}
    fd = None
    rel = []
    q, qt = '"%s"' % name, '"%s.tmp"' % name
    for line in open(path, errors="replace"):
        m = re.match(r"(?:\d+\s+)?(\w+)\((.*)", line)
        if not m:
            continue
        sysname, rest = m.group(1), m.group(2)
        if sysname not in ("access", "rename", "openat", "write", "writev", "close", "unlink"):
            continue
        occ[sysname] = occ.get(sysname, 0) + 1
        ret = line.rsplit("=", 1)[-1].strip() if "=" in line else "?"
        if sysname == "unlink" and qt in rest:
            rel.append({"op": "U", "sys": sysname, "occ": occ[sysname], "ret": ret})
        elif sysname == "access" and qt in rest:
            rel.append({"op": "B", "sys": sysname, "occ": occ[sysname], "ret": ret})
        elif sysname == "access" and q in rest:
            rel.append({"op": "A", "sys": sysname, "occ": occ[sysname], "ret": ret})
        elif sysname == "rename" and rest.startswith(qt):
            rel.append({"op": "T", "sys": sysname, "occ": occ[sysname], "ret": ret})
        elif sysname == "rename" and rest.startswith(q):
            rel.append({"op": "R", "sys": sysname, "occ": occ[sysname], "ret": ret})
        elif sysname == "openat" and (q in rest or qt in rest) and "O_WRONLY" in rest:
            rel.append({"op": "O", "sys": sysname, "occ": occ[sysname], "ret": ret})
            mm = re.match(r"(\d+)", ret)
            fd = mm.group(1) if mm and "INJECTED" not in ret else None
            if mm is None and ret.startswith("?"):
                fd = None
        elif sysname in ("write", "writev") and fd is not None and rest.startswith(fd + ","):
            if sysname == "write":
                mm = re.search(r",\s*(\d+)\)\s*=", line)
                n = int(mm.group(1)) if mm else -1
            else:
                n = sum(int(x) for x in re.findall(r"iov_len=(\d+)", rest))
            rel.append({"op": "W", "sys": sysname, "occ": occ[sysname], "n": n, "ret": ret})
        elif sysname == "close" and fd is not None and rest.startswith(fd + ")"):
            rel.append({"op": "C", "sys": sysname, "occ": occ[sysname], "ret": ret})
            fd = None
    return rel


def save_start(ops):
    """the op that begins a save: U on a tree with the temporary-file protocol, A on one that writes in place"""
    return "U" if any(o.startswith("U") for o in ops) else "A"


def trace_str(rel):
    return ",".join(r["op"] + (str(r["n"]) if r["op"] == "W" else "") for r in rel)


ERRNO = {"A": "EACCES", "R": "EACCES", "O": "EACCES", "W": "ENOSPC", "C": "EIO", "U": "EACCES", "B": "EACCES", "T": "EACCES"}


class Dir:
    """a scratch directory holding <NAME>, <NAME>.old and <NAME>.tmp"""
    def __init__(self, path):
        self.path = path
        if os.path.exists(path):
            shutil.rmtree(path)
        os.makedirs(path)

    def files(self):
        out = {}
        for k, n in (("cur", NAME), ("old", NAME + ".old"), ("tmp", NAME + ".tmp")):
            p = os.path.join(self.path, n)
            out[k] = open(p, "rb").read() if os.path.exists(p) else None
        return out

    def put(self, files):
        for k, n in (("cur", NAME), ("old", NAME + ".old"), ("tmp", NAME + ".tmp")):
            p = os.path.join(self.path, n)
            if os.path.exists(p):
                os.remove(p)
            if files.get(k) is not None:
                open(p, "wb").write(files[k])


class Unrealizable(Exception):
    pass


def run_session(vsim, d, sess, plan):
    """run one process under strace with the fault plan (list of 'o' | 'e' | 'k<j>' per relevant syscall).
    Faults are placed one at a time: the position of each is looked up in the trace obtained with the
    previous faults in place.  -> (relevant syscalls, SAVE results or None when killed, rc)"""
    start = d.files()
    scn = os.path.join(d.path, "s.scn")
    open(scn, "w").write(scenario(sess))
    faults = [(i, p) for i, p in enumerate(plan) if p != "o"]
    inject = []
    rel, out, rc = None, "", 0
    for rnd in range(len(faults) + 1):
        d.put(start)
        tr = os.path.join(d.path, "trace.txt")
        cmd = ["strace", "-e", TRACE, "-o", tr] + sum([["-e", x] for x in inject], []) + [vsim, scn]
        rc, out, err = V.sh(cmd, cwd=d.path, timeout=120)
        rel = parse_trace(tr)
        if rnd == len(faults):
            break
        i, p = faults[rnd]
        if i >= len(rel):
            break        # the process never gets that far (stuck stream, earlier death)
        r = rel[i]
        if any(x.startswith("inject=%s:" % r["sys"]) for x in inject):
            # strace keeps one injection per syscall name: a plan with two faults on the same syscall cannot be realised
            raise Unrealizable("two faults on %s" % r["sys"])
        if p == "e":
            inject.append("inject=%s:error=%s:when=%d" % (r["sys"], ERRNO[r["op"]], r["occ"]))
        else:
            inject.append("inject=%s:signal=SIGKILL:when=%d" % (r["sys"], r["occ"]))
    killed = rc < 0 or rc >= 128
    # the SAVE lines printed so far (the scenario makes stdout unbuffered, so they survive a kill)
    pres = ["ok" if (l.strip() == "SAVE err=ok" or l.startswith("SCRIPT err=ok")) else "err"
            for l in out.split("\n") if l.startswith("SAVE err=") or l.startswith("SCRIPT err=")]
    res = None if killed else pres
    for f in ("s.scn", "trace.txt"):
        p = os.path.join(d.path, f)
        if os.path.exists(p):
            os.remove(p)
    LAST_PARTIAL[0] = pres
    return rel, res, rc


LAST_PARTIAL = [[]]


def classify_errors(sessions, impl_desc):
    """which injected error returns did the code act on?  ignored = the save went on as if nothing had happened
    (after a failed access/rename it still opened the file; or it said SAVE err=ok), reported = the save said err"""
    ignored, reported = [], []
    for (s_, p_), dsc in zip(sessions, impl_desc):
        tr = dsc["trace"].split(",") if dsc["trace"] else []
        results = dsc.get("partial_results") or []
        for i, x in enumerate(p_):
            if x != "e" or i >= len(tr):
                continue
            op = tr[i][0]
            st = save_start(tr)
            si = sum(1 for t in tr[:i + 1] if t.startswith(st)) - 1
            goes_on = op in "UBAR" and i + 1 < len(tr) and not tr[i + 1].startswith(st)
            said_ok = 0 <= si < len(results) and results[si] == "ok"
            (ignored if (goes_on or said_ok) else reported).append(op)
    return ignored, reported


_REF = {}


def reference(vsim, d, sess):
    """fault-free run of a session (memoised): complete bytes of every version and the chunking of every save"""
    key = json.dumps(sess, sort_keys=True)
    if key not in _REF:
        _REF[key] = reference_(vsim, d, sess)
    d.put({})
    return _REF[key]


def reference_(vsim, d, sess):
    d.put({})
    scn = os.path.join(d.path, "r.scn")
    open(scn, "w").write(scenario(sess, distinct=True))
    rc, out, err = V.sh([vsim, scn], cwd=d.path, timeout=120)
    refs = []
    for i in range(len(sess["saves"])):
        p = os.path.join(d.path, "ref%d.colvars.state" % i)
        refs.append(open(p, "rb").read() if os.path.exists(p) else b"")
        if os.path.exists(p):
            os.remove(p)
    os.remove(scn)
    rel, res, rc = run_session(vsim, d, sess, [])
    # split the relevant syscalls per save: writev = written while write_state() runs, write = flushed at close
    saves = []
    cur = None
    st = save_start([r["op"] for r in rel])
    for r in rel:
        if r["op"] == st:
            cur = {"chunks": [], "tail": 0}
            saves.append(cur)
        elif r["op"] == "W" and cur is not None:
            if r["sys"] == "writev":
                cur["chunks"].append(r["n"])
            else:
                cur["tail"] += r["n"]
    d.put({})
    return refs, saves, rel


def version_of(sess, i):
    # the first `step` of a process does not advance the step counter
    return sess["first"] + sess["pre"] + i


def model_line(start_model, sessions):
    """CR line for the model driver: sessions = list of (sess, chunking, plan)"""
    parts = ["CR", "f:%s:%s:%s" % (start_model.get("cur", "-"), start_model.get("old", "-"), start_model.get("tmp", "-"))]
    for k, (sess, chunking, plan) in enumerate(sessions):
        if k:
            parts.append("/")
        for i, c in enumerate(chunking):
            parts.append("s:%d:%s:%d" % (version_of(sess, i), ",".join(map(str, c["chunks"])) or "-", c["tail"]))
        parts.append("p:" + (",".join(plan) or "-"))
    if any(sess.get("writer") == "bias" for sess, c, p in sessions):
        parts.append("w:bias")
    return " ".join(parts)


def observe(files, refs_by_ver):
    """describe the directory against the reference bytes: 'v.b.t' like the model, or '?' when no version matches"""
    out = {}
    for k in ("cur", "old", "tmp"):
        data = files[k]
        if data is None:
            out[k] = "-"
            continue
        cands = [v for v, ref in refs_by_ver.items() if ref[:len(data)] == data and len(data) <= len(ref)]
        out[k] = (len(data), cands)
    return out


def match_model(obs, mfs, refs_by_ver):
    """mfs = 'cur:v.b.t old:-' from the model"""
    m = dict(x.split(":") for x in mfs.split())
    for k in ("cur", "old", "tmp"):
        if m[k] == "-" or obs[k] == "-":
            if m[k] != obs[k]:
                return False
            continue
        v, b, t = map(int, m[k].split("."))
        n, cands = obs[k]
        if n != b or v not in cands or len(refs_by_ver.get(v, b"")) != t:
            return False
    return True


def complete_versions(files, refs_by_ver):
    out = []
    for k in ("cur", "old"):
        if files[k] is not None:
            for v, ref in refs_by_ver.items():
                if files[k] == ref:
                    out.append((k, v))
    return out


def try_load_(vsim, d, fname, config="base", bias=False, how="file"):
    scn = os.path.join(d.path, "l.scn")
    open(scn, "w").write(load_scenario(fname, config, bias, how))
    rc, out, err = V.sh(["timeout", "-s", "KILL", "20", vsim, scn], cwd=d.path, timeout=60,
                        env={"ASAN_OPTIONS": "abort_on_error=1:detect_leaks=0", "UBSAN_OPTIONS": "halt_on_error=1:abort_on_error=1"})
    os.remove(scn)
    if bias:
        m = re.search(r"SCRIPT err=(\S+)", out)
        return rc, (m.group(1), None) if m else None
    m = re.search(r"LOAD err=(\S+) it=(-?\d+)", out)
    return rc, (m.group(1), int(m.group(2))) if m else None


def try_load(vsim, d, fname, run=None, label=""):
    """load a state by its file name; the ".old" backup is loaded under its own name, and, when that is refused, through
    a copy with a plain name: a backup that only loads through the copy is reported (set_input_prefix used to strip
    ".colvars.state" from the middle of "<name>.colvars.state.old")"""
    rc, ld = try_load_(vsim, d, fname)
    if not fname.endswith(".old") or rc != 0 or (ld and ld[0] == "ok"):
        return rc, ld
    tmp = os.path.join(d.path, "backup_copy.colvars.state")
    shutil.copy(os.path.join(d.path, fname), tmp)
    rc2, ld2 = try_load_(vsim, d, "backup_copy.colvars.state")
    os.remove(tmp)
    if run is not None and rc2 == 0 and ld2 and ld2[0] == "ok":
        run.violation(SIG_BACKUPNAME, "after %s the backup %s is refused under its own name (LOAD err=%s) although a copy of it "
                      "named backup_copy.colvars.state loads (it=%d)" % (label, fname, ld[0] if ld else "?", ld2[1]),
                      {"kind": "load-name", "file": fname, "label": label})
    return rc2, ld2


def run_case(run, model, vsim, d, case, quick):
    """case = {"start": None|"two", "sessions": [(sess, plan)], "label": ...}"""
    sessions = case["sessions"]
    refs_by_ver = {}
    chunkings = []
    traces_ff = []
    for sess, plan in sessions:
        refs, chunking, rel = reference(vsim, d, sess)
        chunkings.append(chunking)
        traces_ff.append(rel)
        for i, rb in enumerate(refs):
            refs_by_ver[version_of(sess, i)] = rb
    start_files, start_model = {}, {}
    if case.get("start") == "two":
        # a directory left by an earlier clean run: two complete states
        s0 = {"first": 5000, "pre": 3, "saves": ["text", "text"]}
        refs, chunking, rel = reference(vsim, d, s0)
        for i, rb in enumerate(refs):
            refs_by_ver[version_of(s0, i)] = rb
        start_files = {"cur": refs[1], "old": refs[0]}
        start_model = {"cur": "%d.%d.%d" % (version_of(s0, 1), len(refs[1]), len(refs[1])),
                       "old": "%d.%d.%d" % (version_of(s0, 0), len(refs[0]), len(refs[0]))}
    mline = model_line(start_model, [(s, c, p) for (s, p), c in zip(sessions, chunkings)])
    mparts = []
    cur_model = dict(start_model)
    d.put(start_files)
    completed_before = bool(start_files)
    ok_all = True
    pending = []
    impl_desc = []
    for k, (sess, plan) in enumerate(sessions):
        rel, res, rc = run_session(vsim, d, sess, plan)
        files = d.files()
        obs = observe(files, refs_by_ver)
        # the model is run one process at a time, from the directory the previous process left
        rcm, mout, em = V.run_lines(model, [model_line(cur_model, [(sess, chunkings[k], plan)])])
        mp = (mout[0] if mout else "").strip()
        mparts.append(mp)
        mm = re.match(r"results=(\S*) trace=(\S*) (cur:\S+ old:\S+ tmp:\S+) safe=(\w+) reg=(\S+)", mp)
        desc = {"trace": trace_str(rel), "results": res, "cur": obs["cur"] if obs["cur"] == "-" else list(obs["cur"]),
                "old": obs["old"] if obs["old"] == "-" else list(obs["old"]),
                "tmp": obs["tmp"] if obs["tmp"] == "-" else list(obs["tmp"]), "rc": rc, "partial_results": list(LAST_PARTIAL[0])}
        impl_desc.append(desc)
        # oracle on the implementation alone: a save that says ok has left the complete new state under the name
        if res and res[-1] == "ok":
            want = refs_by_ver.get(version_of(sess, len(res) - 1))
            if want is not None and files["cur"] != want:
                ops = [trace_str(rel).split(",")[i][0] for i, x in enumerate(plan) if x == "e" and i < len(rel)]
                run.violation(SIG_SILENT + ":" + "".join(sorted(set(ops))),
                              "with the fault plan %s the last save says SAVE err=ok but %s holds %s bytes of the %d-byte state"
                              % (case["label"], NAME, "no" if files["cur"] is None else len(files["cur"]), len(want)),
                              {"kind": "crash", "case": case, "impl": impl_desc})
        if not mm:
            pending.append(({"model_case": mline}, desc, mp))
            ok_all = False
            break
        mres = [x for x in mm.group(1).split(",") if x]
        itrace, mfs = trace_str(rel), mm.group(3)
        if res is not None and mm.group(5) != "closed" and itrace.startswith(mm.group(2)):
            # a stream left registered after a detected error is flushed and closed when the process exits
            # (outside the model: it only moves the byte count of the partial current file)
            ex = re.match(r"^(?:,W(\d+))?,C$", itrace[len(mm.group(2)):])
            if ex:
                itrace = mm.group(2)
                if ex.group(1):
                    mtmp = dict(x.split(":") for x in mfs.split())["tmp"]
                    if mtmp != "-":
                        v_, b_, t_ = map(int, mtmp.split("."))
                        mfs = mfs.replace("tmp:" + mtmp, "tmp:%d.%d.%d" % (v_, b_ + int(ex.group(1)), t_))
        if sess.get("writer") == "bias" and "e" in plan:
            # after a failed write the stream is closed all the same: the filebuf first tries to write what it still holds
            # (outside the model: it only moves the byte count of the temporary file of the failed save)
            mt, it_ = mm.group(2).split(","), itrace.split(",")
            for j in range(len(it_)):
                if j < len(mt) and mt[j] == "C" and it_[j].startswith("W") and j + 1 < len(it_) and it_[j + 1] == "C" and it_[:j] == mt[:j]:
                    extra = int(it_[j][1:])
                    itrace = ",".join(it_[:j] + it_[j + 1:])
                    if it_[j + 2:j + 3] == [] or True:
                        mtmp = dict(x.split(":") for x in mfs.split())["tmp"]
                        if mtmp != "-" and obs["tmp"] != "-" and obs["tmp"][0] != int(mtmp.split(".")[1]):
                            v_, b_, t_ = map(int, mtmp.split("."))
                            mfs = mfs.replace("tmp:" + mtmp, "tmp:%d.%d.%d" % (v_, obs["tmp"][0], t_))
                    break
        cur_model = dict(x.split(":") for x in mfs.split())
        same = (itrace == mm.group(2)) and match_model(obs, mfs, refs_by_ver)
        if res is None:
            same = same and (mres[-1:] == ["dead"])
        else:
            same = same and (mres == res)
        if not same:
            pending.append(({"label": case["label"], "model_case": mline, "session": k, "plan": plan,
                             "scenario": scenario(sess)}, desc, mp))
            ok_all = False
        if res and "ok" in res:
            completed_before = True
        elif res is None and mres.count("ok") > 0:
            completed_before = True
    # property oracle on the implementation alone: a complete, loadable state must exist
    files = d.files()
    comp = complete_versions(files, refs_by_ver)
    loadable = []
    for k, n in (("cur", NAME), ("old", NAME + ".old")):
        if files[k] is not None:
            if any(s_.get("writer") == "bias" for s_, p_ in sessions):
                rc, ld = try_load_(vsim, d, n, "base", True)
                if ld and ld[0] == "ok":
                    ld = ("ok", ([v for kk, v in comp if kk == k] + [None])[0])
            else:
                rc, ld = try_load(vsim, d, n, run, case["label"])
            if rc >= 128 or rc == 124 or rc < 0:
                run.violation("load.crash", "loading %s left by the fault plan %s kills the process (rc=%d)" % (n, case["label"], rc),
                              {"kind": "crash", "case": case, "file": n})
            if ld and ld[0] == "ok" and (k, ld[1]) in comp:
                loadable.append((k, ld[1]))
    nfaults = sum(1 for s, p in sessions for x in p if x != "o")
    nontriv = nfaults > 0
    run.count(case["label"] + "|" + mline, nontriv)
    run.dist("protocol:" + case["kind"])
    if completed_before and not loadable:
        plans = [p for s, p in sessions]
        nkill = sum(1 for p in plans for x in p if x.startswith("k"))
        sig = SIG_DOUBLE if nkill >= 2 else SIG_SINGLE
        ignored, reported = classify_errors(sessions, impl_desc)
        if ignored:
            sig = SIG_IGNERR + ":" + "".join(sorted(set(ignored)))
        elif reported:
            sig = SIG_REPORTED
        run.violation(sig, "after a state had been completed, the fault plan %s leaves neither %s nor %s.old complete and loadable: %s"
                      % (case["label"], NAME, NAME, json.dumps(impl_desc[-1])[:300]),
                      {"kind": "crash", "case": case, "model_case": mline, "impl": impl_desc, "model": mparts})
        pending = []     # the disagreement comes with a failing input of the property itself
    for cs, dsc, mp in pending:
        run.mismatch("protocol-tie", cs, dsc, mp)
    return ok_all, impl_desc, mparts


def run_fsize_cases(run, model, vsim, d, quick):
    """real partial writes followed by real process death: RLIMIT_FSIZE = L bytes.  The write that crosses the limit
    persists exactly the bytes up to L (short count), the next write of the remainder raises SIGXFSZ and the process
    dies.  (strace cannot be used here -- its own output file would hit the limit -- so the syscall trace is not
    compared: the files left, the SAVE lines and the property oracle are.)"""
    import resource, signal as _sig
    r = V.rng("C11fsize")
    small = {"first": 0, "pre": 3, "saves": ["text", "text", "binary", "text"]}
    large = {"first": 0, "pre": 150, "saves": ["text", "binary", "text"]}
    ncase = 0
    for label, sess in (("small", small), ("large", large)):
        refs, chunking, rel = reference(vsim, d, sess)
        sizes = [len(x) for x in refs]
        refs_by_ver = {version_of(sess, i): rb for i, rb in enumerate(refs)}
        ops = [x["op"] + (str(x["n"]) if x["op"] == "W" else "") for x in rel]
        limits = set()
        for i, sz in enumerate(sizes):
            limits |= {1, sz - 1, sz // 2, max(1, sz - 8)}
            for c in chunking[i]["chunks"]:
                limits |= {c, c - 1, c + 1}
        limits = sorted(l for l in limits if 0 < l < max(sizes))
        if quick:
            limits = sorted(r.sample(limits, min(len(limits), 7)))
        for L in limits:
            # the plan for the model: everything succeeds until the write that crosses L in the first save larger than L
            plan, done, pos = [], False, 0
            st = save_start(ops)
            for o in ops:
                if o.startswith(st):
                    pos = 0
                if o.startswith("W") and not done:
                    nbytes = int(o[1:])
                    if pos + nbytes > L:
                        plan.append("k%d" % (L - pos))
                        done = True
                        break
                    pos += nbytes
                plan.append("o")
            if not done:
                continue
            d.put({})
            scn = os.path.join(d.path, "s.scn")
            open(scn, "w").write(scenario(sess))

            def limit():
                resource.setrlimit(resource.RLIMIT_FSIZE, (L, L))
                resource.setrlimit(resource.RLIMIT_CORE, (0, 0))
            try:
                pr = subprocess.run([vsim, scn], cwd=d.path, preexec_fn=limit, stdout=subprocess.PIPE, stderr=subprocess.PIPE, timeout=120)
                rc, out = pr.returncode, pr.stdout.decode("latin1")
            except subprocess.TimeoutExpired:
                run.violation("statefile.hang-under-file-size-limit", "saving with RLIMIT_FSIZE=%d hangs" % L,
                              {"kind": "fsize", "limit": L, "session": sess})
                continue
            os.remove(scn)
            pres = ["ok" if l.strip() == "SAVE err=ok" else "err" for l in out.split("\n") if l.startswith("SAVE err=")]
            files = d.files()
            obs = observe(files, refs_by_ver)
            rcm, mout, em = V.run_lines(model, [model_line({}, [(sess, chunking, plan)])])
            mp = (mout[0] if mout else "").strip()
            mm = re.match(r"results=(\S*) trace=(\S*) (cur:\S+ old:\S+ tmp:\S+) safe=(\w+) reg=(\S+)", mp)
            ncase += 1
            run.count("fsize:%s:%d" % (label, L), True)
            run.dist("protocol:partial-write-death(RLIMIT_FSIZE)")
            desc = {"limit": L, "rc": rc, "results": pres, "cur": obs["cur"] if obs["cur"] == "-" else list(obs["cur"]),
                    "old": obs["old"] if obs["old"] == "-" else list(obs["old"]), "tmp": obs["tmp"] if obs["tmp"] == "-" else list(obs["tmp"])}
            died = rc == -_sig.SIGXFSZ
            if mm:
                mres = [x for x in mm.group(1).split(",") if x]
                same = died and match_model(obs, mm.group(3), refs_by_ver) and mres[:-1] == pres and mres[-1:] == ["dead"]
                if not same:
                    run.mismatch("protocol-tie", {"label": "%s:fsize=%d" % (label, L), "plan": plan}, desc, mp)
            comp = complete_versions(files, refs_by_ver)
            loadable = []
            for k, nme in (("cur", NAME), ("old", NAME + ".old")):
                if files[k] is not None:
                    rcl, ld = try_load(vsim, d, nme, run, "fsize=%d" % L)
                    if ld and ld[0] == "ok" and (k, ld[1]) in comp:
                        loadable.append(k)
            if "ok" in pres and not loadable:
                run.violation("statefile.partial-write-death-no-complete-state",
                              "a process limited to files of %d bytes dies (SIGXFSZ) inside the write of save %d after %d save(s) had completed; "
                              "neither %s nor %s.old is complete and loadable: %s" % (L, len(pres) + 1, pres.count("ok"), NAME, NAME, json.dumps(desc)),
                              {"kind": "fsize", "limit": L, "session": sess})
    run.cov["correspondence"]["partial_write_death_cases"] = ncase


def kill_plans(nsys):
    return [["o"] * k + ["k0"] for k in range(nsys)]


def run_crash(run, model, vsim, quick):
    r = V.rng("C11crash")
    d = Dir(os.path.join(V.scratch("C11"), "dir"))
    small = {"first": 0, "pre": 3, "saves": ["text", "text", "binary", "text"]}
    large = {"first": 0, "pre": 150, "saves": ["text", "binary", "text"]}
    cases = []
    # 1. one process, death before every file system call of every save
    for label, sess in (("small", small), ("large", large)):
        refs, chunking, rel = reference(vsim, d, sess)
        if any(len(x) == 0 for x in refs):
            run.violation("statefile.save-does-not-leave-the-file", "a fault-free sequence of saves to distinct names leaves %d of %d state files "
                          "missing or empty (trace of the same saves to one name: %s)" % (sum(1 for x in refs if not x), len(refs), trace_str(rel)),
                          {"kind": "crash", "case": {"kind": "fault-free", "label": label + ":fault-free", "sessions": [(sess, [])]}})
            return
        n = len(rel)
        run.sample({"fault_free_trace_" + label: trace_str(rel), "state_sizes": [len(x) for x in refs]})
        ks = list(range(n)) if (not quick or n <= 24) else sorted(r.sample(range(n), 24))
        for k in ks:
            cases.append({"kind": "single-kill", "label": "%s:kill@%d" % (label, k), "sessions": [(sess, ["o"] * k + ["k0"])]})
    # the same on a directory that already holds two complete states
    for k in (0, 1, 2, 3, 4):
        cases.append({"kind": "single-kill-existing", "label": "existing:kill@%d" % k, "start": "two",
                      "sessions": [({"first": 100, "pre": 2, "saves": ["text", "binary"]}, ["o"] * k + ["k0"])]})
    # 2. one error return (no death) at every call: which errors are looked at
    refs, chunking, rel = reference(vsim, d, large)
    n = len(rel)
    ks = list(range(n)) if not quick else list(range(min(n, 14)))
    for k in ks:
        cases.append({"kind": "single-error", "label": "large:err@%d" % k, "sessions": [(large, ["o"] * k + ["e"])]})
    for k in range(0, 9):
        cases.append({"kind": "single-error", "label": "small:err@%d" % k, "sessions": [(small, ["o"] * k + ["e"])]})
    # 3. the witnesses that refuted the in-place protocol (Example C11_example_former_witnesses), replayed on the real
    # code.  Plans are positions in the syscall sequence, so each history is given twice: placed for the temporary-file
    # protocol (U,B,O,W,C,A,[R,]T per small save) and placed for a tree that writes in place (A,[R,]O,W,C): on the other
    # kind of tree the same plan is just one more fault plan that has to be survived.
    s12 = {"first": 0, "pre": 3, "saves": ["text", "text"]}
    s3 = {"first": 1000, "pre": 2, "saves": ["text"]}
    s123 = {"first": 0, "pre": 3, "saves": ["text", "text", "text"]}
    cases.append({"kind": "witness", "label": "crash-restart-crash:kill-in-the-write-of-save-2,restart,kill-between-the-two-renames",
                  "sessions": [(s12, ["o"] * 10 + ["k0"]), (s3, ["o"] * 7 + ["k0"])]})
    cases.append({"kind": "witness", "label": "crash-restart-crash(in-place positions):kill-in-save-2,restart,kill-after-rename",
                  "sessions": [(s12, ["o"] * 7 + ["k0"]), (s3, ["o", "o", "k0"])]})
    cases.append({"kind": "witness", "label": "save-after-reported-error:ENOSPC-in-the-last-write-of-save-2,save-3-killed-between-its-renames",
                  "sessions": [(s123, ["o"] * 10 + ["e"] + ["o"] * 8 + ["k0"])]})
    cases.append({"kind": "witness", "label": "save-after-reported-error(in-place positions):ENOSPC-in-the-last-write-of-save-2,save-3-killed-after-its-rename",
                  "sessions": [(s123, ["o"] * 7 + ["e", "o", "o", "o", "k0"])]})
    # the former witnesses of ignored error returns (repaired in round 1; must stay safe)
    cases.append({"kind": "witness", "label": "rename-error-in-save-2,kill-three-calls-later",
                  "sessions": [(s123, ["o"] * 5 + ["e", "o", "o", "k0"])]})
    cases.append({"kind": "witness", "label": "rename-error-in-save-2,kill-two-calls-later",
                  "sessions": [(s123, ["o"] * 5 + ["e", "o", "k0"])]})
    cases.append({"kind": "witness", "label": "backup-rename-error-in-save-2,kill-in-the-write-of-save-3",
                  "sessions": [(s123, ["o"] * 13 + ["e", "o", "o", "o", "k0"])]})
    cases.append({"kind": "witness", "label": "ENOSPC-in-the-last-write-of-save-2,no-further-save,kill-free",
                  "sessions": [(s12, ["o"] * 10 + ["e"])]})
    cases.append({"kind": "witness", "label": "ENOSPC-in-the-last-write-of-save-2(in-place positions),no-further-save,kill-free",
                  "sessions": [(s12, ["o"] * 7 + ["e"])]})
    # every error return and every kill position in the install phase of the second save (A, R, T)
    for k in (12, 13, 14):
        for f in ("e", "k0"):
            cases.append({"kind": "install-fault", "label": "small:install:%s@%d" % (f, k), "sessions": [(s123, ["o"] * k + [f])]})
    # 3b. the writer of a single bias's state file (cv bias m save): death and an error return at every call
    bsmall = {"first": 0, "pre": 3, "saves": ["text", "text", "text"], "writer": "bias"}
    blarge = {"first": 0, "pre": 300, "saves": ["text", "text"], "writer": "bias"}
    for label, sess in (("bias-small", bsmall), ("bias-large", blarge)):
        refs, chunking, rel = reference(vsim, d, sess)
        n = len(rel)
        run.sample({"fault_free_trace_" + label: trace_str(rel), "state_sizes": [len(x) for x in refs]})
        ks = list(range(n)) if not quick else sorted(r.sample(range(n), min(n, 7)))
        for k in ks:
            cases.append({"kind": "bias-writer-kill", "label": "%s:kill@%d" % (label, k), "sessions": [(sess, ["o"] * k + ["k0"])]})
            cases.append({"kind": "bias-writer-error", "label": "%s:err@%d" % (label, k), "sessions": [(sess, ["o"] * k + ["e"])]})
    cases.append({"kind": "bias-writer-two-processes", "label": "bias:kill-in-the-write-of-save-2,restart,kill-between-the-two-renames",
                  "sessions": [(bsmall, ["o"] * 10 + ["k0"]), ({"first": 1000, "pre": 2, "saves": ["text"], "writer": "bias"}, ["o"] * 7 + ["k0"])]})
    # 4. random two-fault plans over two processes
    for j in range(8 if quick else 100):
        p1 = ["o"] * r.randint(4, 22) + [r.choice(["k0", "e"])]
        p2 = ["o"] * r.randint(0, 9) + [r.choice(["k0", "e", "k0"])]
        sa = {"first": 0, "pre": r.choice([2, 150]), "saves": [r.choice(["text", "binary"]) for _ in range(3)]}
        sb = {"first": 2000, "pre": 2, "saves": [r.choice(["text", "binary"]) for _ in range(2)]}
        cases.append({"kind": "random-two-fault", "label": "random%d" % j, "sessions": [(sa, p1), (sb, p2)]})
    nmis = 0
    for c in cases:
        try:
            ok, impl_desc, mparts = run_case(run, model, vsim, d, c, quick)
        except Unrealizable as ex:
            run.dist("protocol:skipped-unrealizable-plan")
            continue
        if c["kind"] == "witness":
            run.sample({"witness": c["label"], "impl": impl_desc, "model": mparts})
    run.cov["correspondence"]["protocol_cases"] = len(cases)
    run_fsize_cases(run, model, vsim, d, quick)
    load_exe = vsim
    if not quick:
        # thorough tier: the load search runs a build with AddressSanitizer + UBSan (-fno-sanitize-recover): an
        # out-of-bounds access or undefined behaviour on a damaged file aborts the process and is reported as a crash
        try:
            load_exe = V.build_prog("vsim", ["harness/vsim_main.cpp"], "asan")
            run.notes.append("load search run with the asan variant of vsim")
        except Exception as ex:
            run.notes.append("asan build failed, load search used the plain build: %s" % str(ex)[-200:])
    run_damage(run, load_exe, d, quick, model)
    if model is not None:
        run_damage_grid(run, load_exe, d, quick, model)


# ---------------------------------------------------------------------------------------------------
# (c) damaged state files through vsim `load`
def top_level_blocks(text):
    """[(start, end, keyword)] of the top-level brace blocks of a text state"""
    out = []
    depth = 0
    start = None
    kw_start = 0
    i = 0
    for i, ch in enumerate(text):
        if ch == "{":
            if depth == 0:
                start = i
                j = i - 1
                while j >= 0 and text[j] in " \t\n":
                    j -= 1
                e = j + 1
                while j >= 0 and text[j] not in " \t\n":
                    j -= 1
                kw = text[j + 1:e]
                kw_start = j + 1
            depth += 1
        elif ch == "}":
            depth -= 1
            if depth == 0:
                out.append((start, i, kw))
    return out


KEYWORDS = {"configuration": 0, "colvar": 1, "name": 2, "hill": 3, "x": 4}


def tx_line(text, config="base"):
    """the case line for the text-reader model (coq/C11/StateReadModel.v): the configured objects of the configuration and
    the white-space separated words of the (damaged) file; words are numbered, the reader's own keywords have fixed numbers"""
    ids = dict(KEYWORDS)

    def wid(w):
        if w not in ids:
            ids[w] = 100 + len(ids)
        return ids[w]
    if config == "base":
        cfg = "cv:%d b:%d.%d.%d.0,%d.%d.%d.1" % (wid("d"), wid("restraint"), wid("harmonic"), wid("h"),
                                                   wid("metadynamics"), wid("metadynamics"), wid("m"))
    elif config in ("eabf", "eabf_nocz", "eabf_harm"):
        lay = "k%d+w%d+k%d+w%d" % (wid("samples"), NBINS, wid("gradient"), NBINS)
        if config != "eabf_nocz":
            lay += "+k%d+w%d+k%d+w%d" % (wid("z_samples"), NBINS, wid("z_gradient"), NBINS)
        cfg = "cv:%d b:%d.%d.%d.0.%s" % (wid("d"), wid("abf"), wid("abf"), wid("a"), lay)
        if config == "eabf_harm":
            cfg += ",%d.%d.%d.0" % (wid("restraint"), wid("harmonic"), wid("h"))
    elif config == "ti":
        cfg = "cv:%d b:%d.%d.%d.0.k%d+w%d+k%d+w%d" % (wid("d"), wid("restraint"), wid("harmonic"), wid("h"), wid("histogram"), NBINS, wid("system_forces"), NBINS)
    elif config == "twin":
        cfg = "cv:%d,%d,%d b:%d.%d.%d.0,%d.%d.%d.0,%d.%d.%d.1,%d.%d.%d.1" % (
            wid("d"), wid("colvar2"), wid("f"),
            wid("restraint"), wid("harmonic"), wid("harmonic1"), wid("restraint"), wid("harmonic"), wid("harmonic2"),
            wid("metadynamics"), wid("metadynamics"), wid("metadynamics1"), wid("metadynamics"), wid("metadynamics"), wid("metadynamics2"))
    elif config == "sabf":
        lay = "+".join("k%d+w%d" % (wid(k), NBINS) for k in ("samples", "gradient", "local_samples", "local_gradient", "last_samples", "last_gradient"))
        cfg = "cv:%d b:%d.%d.%d.0.%s" % (wid("d"), wid("abf"), wid("abf"), wid("a"), lay)
    elif config == "hist":
        cfg = "cv:%d b:%d.%d.%d.0.k%d+w%d" % (wid("d"), wid("histogram"), wid("histogram"), wid("hi"), wid("grid"), NBINS)
    elif config == "extra":
        # ALB: configuration only; OPES: key opes_metad_<name>, nine keyword/value pairs, the block hills { kernels }
        cfg = "cv:%d b:%d.%d.%d.0,%d.%d.%d.0.k%d+w18+b%d" % (
            wid("d"), wid("alb"), wid("alb"), wid("al"), wid("opes_metad"), wid("opes_metad"), wid("op"), wid("opes_metad_op"), wid("hills"))
    else:
        # 4 bins: histogram = key "grid" + 4 numbers; metadynamics = two grids (key, grid_parameters block, 4 numbers), then hills
        gp = wid("grid_parameters")
        cfg = "cv:%d b:%d.%d.%d.0.k%d+w4,%d.%d.%d.1.k%d+b%d+w4+k%d+b%d+w4" % (
            wid("d"), wid("histogram"), wid("histogram"), wid("hi"), wid("grid"),
            wid("metadynamics"), wid("metadynamics"), wid("m"), wid("hills_energy"), gp, wid("hills_energy_gradients"), gp)
    toks = [w if w in ("{", "}") else str(wid(w)) for w in text.split()]
    return "TX %s t:%s" % (cfg, ",".join(toks) or "-")


def tb_line(data, config="base"):
    """the case line for the binary-reader model (coq/C11/BinReadModel.v): the objects of the configuration in the order of
    the module's lists and the bytes of the (damaged) file; None for configurations with data the model does not have
    (grids of metadynamics, OPES)"""
    hx = lambda t: t.encode().hex()
    if config == "base":
        bs = "%s.%s.0.1,%s.%s.1.1" % (hx("restraint"), hx("harmonic"), hx("metadynamics"), hx("metadynamics"))
    elif config in ("eabf", "eabf_nocz", "eabf_harm"):
        lay = "k%s+o%d+k%s+o%d" % (hx("samples"), NBINS, hx("gradient"), NBINS)
        if config != "eabf_nocz":
            lay += "+k%s+o%d+k%s+o%d" % (hx("z_samples"), NBINS, hx("z_gradient"), NBINS)
        bs = "%s.%s.0.1.%s" % (hx("abf"), hx("abf"), lay)
        if config == "eabf_harm":
            bs += ",%s.%s.0.1" % (hx("restraint"), hx("harmonic"))
    elif config == "hist":
        bs = "%s.%s.0.1.k%s+o%d" % (hx("histogram"), hx("histogram"), hx("grid"), NBINS)
    elif config == "ti":
        bs = "%s.%s.0.1.k%s+o%d+k%s+o%d" % (hx("restraint"), hx("harmonic"), hx("histogram"), NBINS, hx("system_forces"), NBINS)
    elif config == "sabf":
        # a shared ABF announces `sharedData on` in its configuration string: local and last-shared grids are mandatory
        lay = "+".join("k%s+o%d" % (hx(k), NBINS) for k in ("samples", "gradient", "local_samples", "local_gradient", "last_samples", "last_gradient"))
        bs = "%s.%s.0.1.%s" % (hx("abf"), hx("abf"), lay)
    elif config == "grid":
        # colvar_grid::read_restart on a memory_stream: read_block("grid_parameters") = the key and one string, then the values
        g = "k%s+k%s+a0+o%d" % ("%s", hx("grid_parameters"), NBINS)
        bs = "%s.%s.0.1.k%s+o%d,%s.%s.1.1.%s+%s" % (hx("histogram"), hx("histogram"), hx("grid"), NBINS,
                                                      hx("metadynamics"), hx("metadynamics"), g % hx("hills_energy"), g % hx("hills_energy_gradients"))
    elif config == "twin":
        bs = ",".join(["%s.%s.0.1" % (hx("restraint"), hx("harmonic"))] * 2 +
                      ["%s.%s.1.1" % (hx("metadynamics"), hx("metadynamics")), "%s.%s.1.2" % (hx("metadynamics"), hx("metadynamics"))])
        return "TB n:3 b:%s d:%s" % (bs, data.hex())
    else:
        return None
    return "TB n:1 b:%s d:%s" % (bs, data.hex())


def other_entry_points(run, vsim, d, quick, cfgname, fmt, data, verdicts, r):
    """the same damaged states through the other two entry points of setup_input(): a memory buffer for binary states
    (set_input_state_buffer: engines with their own checkpoints) and a string for text states; the verdict must be the
    one of the file (which the reader models are tied to); a proper prefix that one entry point accepts and the other
    rejects is reported"""
    how = "buf" if fmt == "binary" else "str"
    pick = [v for i, v in enumerate(verdicts) if (i % (8 if quick else 4)) == 0]
    p = os.path.join(d.path, "dmg.colvars.state")
    n = 0
    if fmt == "binary" and len(data) > 8:
        # a buffer that ends inside the magic number: the stream fails before any reader could report an error
        for cut in (1, 3):
            open(p, "wb").write(data[:cut])
            rc, ld = try_load_(vsim, d, "dmg.colvars.state", cfgname, False, how)
            n += 1
            run.count("%s-binary-buf-short-%d" % (cfgname, cut), True)
            run.dist("damage:binary-prefix-via-buffer")
            if rc >= 128 or rc == 124 or rc < 0 or ld is None or ld[0] == "ok":
                run.violation("load.binary-prefix-accepted-via-buf:inside-magic-number", "the first %d byte(s) of a valid binary state (%s configuration) given to set_input_state_buffer() %s"
                              % (cut, cfgname, "are accepted without any error" if (ld and ld[0] == "ok") else "kill or hang the process (rc=%d)" % rc),
                              {"kind": "load", "format": fmt, "config": cfgname, "cut": cut, "how": how})
        # a complete buffer whose magic number is wrong (colvarmodule::read_state(memory_stream &) is the only check on this path)
        dd = bytearray(data); dd[0] ^= 1
        open(p, "wb").write(bytes(dd))
        rc, ld = try_load_(vsim, d, "dmg.colvars.state", cfgname, False, how)
        n += 1
        run.count("%s-binary-buf-bad-magic" % cfgname, True)
        run.dist("damage:binary-bad-magic-via-buffer")
        if rc >= 128 or rc == 124 or rc < 0 or ld is None or ld[0] == "ok":
            run.violation("load.bad-magic-number-via-buffer", "a state buffer whose magic number has one bit flipped (%s configuration) %s"
                          % (cfgname, "is accepted without any error" if (ld and ld[0] == "ok") else "kills or hangs the process (rc=%d)" % rc),
                          {"kind": "load", "format": fmt, "config": cfgname, "flip": [0, 0], "how": how})
    for cut, verdict in pick:
        if fmt == "binary" and cut < 4:
            continue
        open(p, "wb").write(data[:cut])
        rc, ld = try_load_(vsim, d, "dmg.colvars.state", cfgname, False, how)
        n += 1
        run.count("%s-%s-%s-prefix-%d" % (cfgname, fmt, how, cut), True)
        run.dist("damage:%s-prefix-via-%s" % (fmt, "buffer" if how == "buf" else "string"))
        if rc >= 128 or rc == 124 or rc < 0 or ld is None:
            run.violation("load.crash:%s-prefix-via-%s" % (fmt, how), "loading the first %d of %d bytes of a valid %s state (%s configuration) through %s kills or hangs the process (rc=%d)"
                          % (cut, len(data), fmt, cfgname, "set_input_state_buffer" if how == "buf" else "the input state string", rc),
                          {"kind": "load", "format": fmt, "config": cfgname, "cut": cut, "how": how})
            continue
        got = "ok" if ld[0] == "ok" else "err"
        if got != verdict:
            if got == "ok":
                run.violation("load.%s-prefix-accepted-via-%s" % (fmt, how), "the first %d of %d bytes of a valid %s state (%s configuration) are rejected when read from a file "
                              "but accepted without any error through %s" % (cut, len(data), fmt, cfgname, "set_input_state_buffer()" if how == "buf" else "the input state string"),
                              {"kind": "load", "format": fmt, "config": cfgname, "cut": cut, "how": how})
            else:
                run.mismatch("entry-point-tie", {"config": cfgname, "format": fmt, "cut": cut, "how": how}, got, verdict)
    return n


def load_measured(vsim, d, fname, config):
    """load a state in a fresh process and measure its peak resident memory (kB) -> rc, (err, it) | None, maxrss"""
    scn = os.path.join(d.path, "l.scn")
    open(scn, "w").write(load_scenario(fname, config))
    env = dict(os.environ)
    env.update({"ASAN_OPTIONS": "abort_on_error=1:detect_leaks=0:allocator_may_return_null=1", "UBSAN_OPTIONS": "halt_on_error=1:abort_on_error=1",
                "OMP_NUM_THREADS": "1"})
    pr = subprocess.Popen(["timeout", "-s", "KILL", "20", vsim, scn], cwd=d.path, stdout=subprocess.PIPE, stderr=subprocess.DEVNULL, env=env)
    out = pr.stdout.read().decode("latin1")
    pid, status, ru = os.wait4(pr.pid, 0)
    pr.returncode = -(status & 0x7f) if (status & 0x7f) else (status >> 8)
    os.remove(scn)
    m = re.search(r"LOAD err=(\S+) it=(-?\d+)", out)
    return pr.returncode, ((m.group(1), int(m.group(2))) if m else None), ru.ru_maxrss


def run_corrupt_counts(run, vsim, d, quick):
    """a count or a length in a state is corrupted to a large value (2^22, 2^40; text: 4000000, 999999999999): the load must
    end (no signal, no timeout) and must not make the process allocate in proportion to the corrupt number: peak resident
    memory within 150 MB of what loading the intact state takes (the states are a few kB)"""
    r = V.rng("C11counts")
    p = os.path.join(d.path, "dmg.colvars.state")
    for cfgname in (["extra", "base", "grid"] if quick else ["extra", "base", "grid", "eabf", "twin", "hist", "sabf"]):
        sess = {"first": 0, "pre": 6, "saves": ["text", "binary"]}
        if cfgname != "base":
            sess["config"] = cfgname
        refs, chunking, rel = reference(vsim, d, sess)
        text, binary = refs
        open(p, "wb").write(binary)
        rc0, ld0, base_rss = load_measured(vsim, d, "dmg.colvars.state", cfgname)
        cases = []
        # binary: the 8 bytes after every keyword record, and every 8-byte length word of a string record
        recs = [m for m in re.finditer(rb"[\x01-\x20]\x00{7}[a-zA-Z_]{3,24}", binary)
                if struct.unpack("<Q", binary[m.start():m.start() + 8])[0] == m.end() - m.start() - 8]
        spots = sorted(set([m.end() for m in recs if m.end() + 8 <= len(binary)] + [m.start() for m in recs]))
        keyspots = [m.end() for m in recs if binary[m.start() + 8:m.end()] in (b"num_hills", b"counter", b"step", b"hills")]
        spots = sorted(set(keyspots + r.sample(spots, min(len(spots), 6 if quick else 40))))
        for sp in spots:
            for val in (1 << 22, 1 << 40):
                bb = bytearray(binary); bb[sp:sp + 8] = struct.pack("<Q", val)
                cases.append(("binary", "8 bytes at %d := %d" % (sp, val), bytes(bb), {"at": sp, "value": val}))
        # text: every integer that follows a word
        tx = text.decode("latin1")
        ints = [m for m in re.finditer(r"(?<=[A-Za-z_] )\s*(\d+)(?=\s)", tx)]
        ints = [m for m in ints if re.search(r"(num_hills|numHills|counter|sizes|step)\s+$", tx[max(0, m.start() - 24):m.start(1)])][:6 if quick else 20] + r.sample(ints, min(len(ints), 3 if quick else 25))
        for m in ints:
            for val in ("4000000", "999999999999"):
                cases.append(("text", "integer at %d := %s" % (m.start(1), val), (tx[:m.start(1)] + val + tx[m.end(1):]).encode("latin1"), {"at": m.start(1), "value": val}))
        for fmt, what, data, rp in cases:
            open(p, "wb").write(data)
            rc, ld, rss = load_measured(vsim, d, "dmg.colvars.state", cfgname)
            run.count("corrupt-count-%s-%s-%s" % (cfgname, fmt, what), True)
            run.dist("damage:%s-corrupt-count" % fmt)
            rp = dict(rp, kind="corrupt-count", config=cfgname, format=fmt)
            if rc >= 128 or rc == 124 or rc < 0 or ld is None:
                run.violation("load.crash:corrupt-count", "loading a valid %s state (%s configuration) with %s kills or hangs the process (rc=%d)" % (fmt, cfgname, what, rc), rp)
            elif rss > base_rss + 150000:
                run.violation("load.memory:corrupt-count", "loading a valid %d-byte %s state (%s configuration) with %s takes %d MB of resident memory (%d MB for the intact state): "
                              "the reader allocates in proportion to a number it has not checked against the data" % (len(data), fmt, cfgname, what, rss // 1000, base_rss // 1000), rp)
    if os.path.exists(p):
        os.remove(p)


def run_sessions_with_failed_loads(run, vsim, d, quick):
    """a host that keeps running after rejected loads: in ONE process, several damaged states are loaded (each must be
    rejected or accepted without crashing), then the undamaged state: it must load with err=ok and the right step, and a
    state saved afterwards must be loadable by a fresh process"""
    r = V.rng("C11sessions")
    for cfgname in (["base", "twin"] if quick else ["base", "twin", "grid", "eabf", "extra"]):
        sess = {"first": 0, "pre": 6, "saves": ["text", "binary"]}
        if cfgname != "base":
            sess["config"] = cfgname
        refs, chunking, rel = reference(vsim, d, sess)
        for fmt, data in (("text", refs[0]), ("binary", refs[1])):
            n = len(data)
            cuts = sorted(r.sample(range(5, n), 4))
            names = []
            for i, c in enumerate(cuts):
                nm = "dmg%d.colvars.state" % i
                open(os.path.join(d.path, nm), "wb").write(data[:c])
                names.append(nm)
            flipped = bytearray(data); k = r.randrange(n); flipped[k] ^= 1 << r.randrange(8)
            open(os.path.join(d.path, "dmg4.colvars.state"), "wb").write(bytes(flipped)); names.append("dmg4.colvars.state")
            open(os.path.join(d.path, "good.colvars.state"), "wb").write(data)
            L = ["natoms %d" % NATOMS.get(cfgname, 2)] + PRELUDE.get(cfgname, []) + ["new", "config EOF"] + CONFIGS[cfgname].strip("\n").split("\n") + ["EOF"]
            L += ["load %s" % nm for nm in names] + ["load good.colvars.state", "save %s after.colvars.state" % fmt]
            scn = os.path.join(d.path, "q.scn")
            open(scn, "w").write("\n".join(L) + "\n")
            rc, out, err = V.sh(["timeout", "-s", "KILL", "30", vsim, scn], cwd=d.path, timeout=60)
            loads = re.findall(r"LOAD err=(\S+) it=(-?\d+)", out)
            run.count("session-failed-loads-%s-%s" % (cfgname, fmt), True)
            run.dist("damage:failed-loads-then-valid-state")
            rep_ = {"kind": "load-session", "config": cfgname, "format": fmt, "cuts": cuts, "flip": k, "scenario": "\n".join(L)}
            want_it = version_of(sess, 0 if fmt == "text" else 1)
            if rc != 0 or len(loads) != len(names) + 1:
                run.violation("load.crash:session-with-rejected-loads", "a session that loads %d damaged %s states (%s configuration) and then the valid one dies or hangs (rc=%d, %d of %d loads reported)"
                              % (len(names), fmt, cfgname, rc, len(loads), len(names) + 1), rep_)
            elif loads[-1][0] != "ok" or int(loads[-1][1]) != want_it:
                run.violation("load.valid-state-rejected-after-damaged-loads", "after %d rejected/damaged %s loads in the same session (%s configuration) the valid state loads with err=%s it=%s (expected ok, %d)"
                              % (len(names), fmt, cfgname, loads[-1][0], loads[-1][1], want_it), rep_)
            else:
                rc2, ld2 = try_load_(vsim, d, "after.colvars.state", cfgname)
                if rc2 != 0 or not ld2 or ld2[0] != "ok" or ld2[1] != want_it:
                    run.violation("load.state-saved-after-damaged-loads-unreadable", "the %s state saved after rejected loads and a valid load (%s configuration) does not load in a fresh process: rc=%d %s"
                                  % (fmt, cfgname, rc2, ld2), rep_)
            for nm in names + ["good.colvars.state", "after.colvars.state", "q.scn"]:
                pth = os.path.join(d.path, nm)
                if os.path.exists(pth):
                    os.remove(pth)


def run_large_steps_and_cross_loads(run, vsim, d, quick):
    """(i) step numbers beyond 2^31, 2^32, 2^53 and near 2^62 through save and load, both formats, file / buffer / string: the
    step read back must be the step written; (ii) every valid state loaded by every OTHER configuration (objects missing,
    extra, of other kinds, other grids): no crash or hang, whatever the verdict"""
    steps = [2**31 + 5, 2**32 + 7, 2**53 + 1, 2**62 - 9]
    if quick:
        steps = [2**31 + 5, 2**53 + 1]
    for st in steps:
        sess = {"first": st, "pre": 3, "saves": ["text", "binary"]}
        d.put({})
        scn = os.path.join(d.path, "r.scn")
        open(scn, "w").write(scenario(sess, distinct=True))
        rc, out, err = V.sh([vsim, scn], cwd=d.path, timeout=120)
        os.remove(scn)
        want = {0: version_of(sess, 0), 1: version_of(sess, 1)}
        for i, (fmt, how) in enumerate((("text", "file"), ("binary", "file"), ("text", "str"), ("binary", "buf"))):
            fi = 0 if fmt == "text" else 1
            nm = "ref%d.colvars.state" % fi
            run.count("large-step-%d-%s-%s" % (st, fmt, how), True)
            run.dist("roundtrip:large-step-number")
            if not os.path.exists(os.path.join(d.path, nm)):
                run.violation("statefile.large-step-save-failed", "saving a %s state at step %d leaves no file (rc=%d)" % (fmt, st, rc),
                              {"kind": "large-step", "step": st, "format": fmt})
                continue
            rcl, ld = try_load_(vsim, d, nm, "base", False, how)
            if rcl != 0 or not ld or ld[0] != "ok" or ld[1] != want[fi]:
                run.violation("statefile.large-step-roundtrip", "a %s state saved at step %d (> 2^31) and loaded from a %s gives rc=%d %s, expected err=ok it=%d"
                              % (fmt, want[fi], {"file": "file", "str": "string", "buf": "memory buffer"}[how], rcl, ld, want[fi]),
                              {"kind": "large-step", "step": st, "format": fmt, "how": how})
        for fi in (0, 1):
            pth = os.path.join(d.path, "ref%d.colvars.state" % fi)
            if os.path.exists(pth):
                os.remove(pth)
    names = ["base", "grid", "extra", "eabf", "eabf_nocz", "eabf_harm", "hist", "sabf", "twin"]
    states = {}
    for c in names:
        sess = {"first": 0, "pre": 6, "saves": ["text", "binary"]}
        if c != "base":
            sess["config"] = c
        refs, chunking, rel = reference(vsim, d, sess)
        states[c] = refs
    r = V.rng("C11cross")
    pairs = [(a, b) for a in names for b in names + ["grid8"] if a != b]
    must = [("grid", "grid8"), ("hist", "grid8")]     # the same objects with other grid boundaries
    if quick:
        pairs = must + r.sample([x for x in pairs if x not in must], 10)
    p = os.path.join(d.path, "dmg.colvars.state")
    for a, b in pairs:
        for fi, fmt in ((0, "text"), (1, "binary")):
            open(p, "wb").write(states[a][fi])
            rc, ld = try_load_(vsim, d, "dmg.colvars.state", b)
            run.count("cross-%s-into-%s-%s" % (a, b, fmt), True)
            run.dist("damage:state-of-another-configuration")
            if rc >= 128 or rc == 124 or rc < 0 or ld is None:
                run.violation("load.crash:state-of-another-configuration", "loading the valid %s state of the %s configuration in a session configured as %s kills or hangs the process (rc=%d)"
                              % (fmt, a, b, rc), {"kind": "cross-load", "state_of": a, "into": b, "format": fmt})
    if os.path.exists(p):
        os.remove(p)


def run_damage_grid(run, vsim, d, quick, model):
    run_sessions_with_failed_loads(run, vsim, d, quick)
    run_large_steps_and_cross_loads(run, vsim, d, quick)
    run_corrupt_counts(run, vsim, d, quick)
    for cfgname in ("grid", "extra", "eabf", "eabf_nocz", "eabf_harm", "hist", "sabf", "twin", "ti"):
        run_damage_config(run, vsim, d, quick, model, cfgname)


def run_damage_config(run, vsim, d, quick, model, cfgname):
    """prefixes of a text state whose biases hold grids (histogram; metadynamics with grids) resp. ALB and OPES data: a cut
    inside an object's block must be an error (oracle), and the text-reader model with the layouts gives the same verdict
    (tie); prefixes of the binary state: no crash, and an accepted proper prefix is reported (search only)"""
    r = V.rng("C11damage" + cfgname)
    sess = {"first": 0, "pre": 6, "saves": ["text", "binary"], "config": cfgname}
    refs, chunking, rel = reference(vsim, d, sess)
    text = refs[0]
    binary = refs[1]
    n = len(text)
    p = os.path.join(d.path, "dmg.colvars.state")
    blocks = top_level_blocks(text.decode("latin1"))
    obj_blocks = [(a, b, kw) for a, b, kw in blocks if kw != "configuration"]
    open(p, "wb").write(text)
    rc, ld = try_load_(vsim, d, "dmg.colvars.state", cfgname)
    if rc != 0 or not ld or ld[0] != "ok":
        run.violation("load.valid-state-rejected", "a freshly written text state with grids does not load (rc=%d, %s)" % (rc, ld),
                      {"kind": "load", "format": "text", "config": cfgname, "cut": n})
        return
    if quick:
        offs = set(r.sample(range(n), min(n, 60 if cfgname in ("grid", "extra") else 30)))
        for a, b, kw in obj_blocks:
            offs |= {a, a + 1, b - 1, b, b + 1, (a + b) // 2}
        for m in re.finditer(rb"grid_parameters|hills_energy|\ngrid\n|\}\n [-0-9]", text):
            offs |= {m.start(), m.start() + 3, m.end(), m.end() + 1, m.end() + 9}
    else:
        # every second offset, every offset around the block boundaries
        offs = set(range(0, n, 2))
        for a, b, kw in obj_blocks:
            offs |= set(range(max(0, a - 12), min(n, a + 4))) | set(range(max(0, b - 3), min(n, b + 3)))
    verdicts = []
    for cut in sorted(o for o in offs if 0 <= o < n):
        open(p, "wb").write(text[:cut])
        rc, ld = try_load_(vsim, d, "dmg.colvars.state", cfgname)
        run.count("%s-text-prefix-%d" % (cfgname, cut), True)
        run.dist("damage:text-prefix(%s)" % cfgname)
        if rc >= 128 or rc == 124 or rc < 0 or ld is None:
            run.violation("load.crash:text-prefix", "loading the first %d of %d bytes of a valid text state with grids kills or hangs the process (rc=%d)" % (cut, n, rc),
                          {"kind": "load", "format": "text", "config": cfgname, "cut": cut})
            continue
        verdicts.append((cut, "ok" if ld[0] == "ok" else "err"))
        inside = [kw for a, b, kw in obj_blocks if a < cut <= b]
        if inside and ld[0] == "ok":
            run.violation("load.text-cut-inside-%s-block-accepted" % inside[0],
                          "a text state with grids cut at byte %d, inside the %s block, loads without any error" % (cut, inside[0]),
                          {"kind": "load", "format": "text", "config": cfgname, "cut": cut})
    lines = [tx_line(text[:cut].decode("latin1"), cfgname) for cut, _ in verdicts]
    rcm, mout, em = V.run_lines(model, lines, timeout=600)
    ndis = 0
    for (cut, verdict), mo in zip(verdicts, mout + ["<none>"] * (len(lines) - len(mout))):
        if text[:cut].endswith(b"}") and mo.strip() != verdict:
            # boundary-ambiguous: the file ends directly after a closing brace (no newline).  getline() then sets eofbit,
            # the `is.tellg() > pos` test of read_objects_state fails (tellg() on a stream at EOF sets failbit) and the loop goes on
            # to the next variable/bias, which reports an error.  The token model has no "white space after the last word" bit;
            # states written by Colvars always end with a newline.
            run.dist("damage:text-prefix-boundary-ambiguous(EOF-after-brace)")
            continue
        if mo.strip() != verdict:
            ndis += 1
            run.mismatch("text-reader-tie", {"config": cfgname, "cut": cut, "of": n, "tail": text[max(0, cut - 30):cut].decode("latin1")}, verdict, mo.strip())
    # binary prefixes of the same configuration: search only
    nb = len(binary)
    pat = struct.pack("<Q", 4) + b"hill"
    hill_starts = [m.start() for m in re.finditer(re.escape(pat), binary)]
    if quick:
        # a sample, the last bytes, and every byte of every keyword record (8-byte length + characters) of the state and
        # of the 9 bytes after it: where a reader decides between "key not there" and "key cut"
        boffs = set(r.sample(range(5, nb), min(nb - 5, 30))) | set(range(max(5, nb - 16), nb))
        for m in re.finditer(rb"[\x01-\x20]\x00{7}[a-z_]{3,22}", binary):
            if struct.unpack("<Q", binary[m.start():m.start() + 8])[0] == m.end() - m.start() - 8:
                boffs |= set(range(max(5, m.start() - 1), min(nb, m.end() + 9)))
        cap = 100 if cfgname in ("grid", "extra") else 160
        if len(boffs) > cap:
            # a sample of them; the thorough tier takes every offset
            boffs = set(r.sample(sorted(boffs), cap)) | set(range(max(5, nb - 16), nb))
    else:
        # every offset (the binary states of these configurations are small); OPES: every second one
        boffs = set(range(5, nb)) if cfgname != "extra" else (set(range(5, nb, 2)) | set(range(max(5, nb - 40), nb)))
    nacc = 0
    bverdicts = []
    for cut in sorted(boffs):
        open(p, "wb").write(binary[:cut])
        rc, ld = try_load_(vsim, d, "dmg.colvars.state", cfgname)
        run.count("%s-binary-prefix-%d" % (cfgname, cut), True)
        run.dist("damage:binary-prefix(%s)" % cfgname)
        if rc >= 128 or rc == 124 or rc < 0 or ld is None:
            run.violation("load.crash:binary-prefix", "loading the first %d of %d bytes of a valid binary state (%s configuration) kills or hangs the process (rc=%d)" % (cut, nb, cfgname, rc),
                          {"kind": "load", "format": "binary", "config": cfgname, "cut": cut})
        else:
            bverdicts.append((cut, "ok" if ld[0] == "ok" else "err"))
        if not (rc >= 128 or rc == 124 or rc < 0 or ld is None) and ld[0] == "ok":
            nacc += 1
            sig = "load.binary-prefix-accepted:at-hill-boundary" if cut in hill_starts else "load.binary-prefix-accepted:" + cfgname
            if cfgname == "sabf" and binary[cut:cut + 20] == struct.pack("<Q", 12) + b"last_samples":
                # the file ends exactly where the optional section (absent from older states) would start
                sig = "load.binary-prefix-accepted:before-optional-last_samples-section"
            run.violation(sig, "a binary state (%s configuration) cut at byte %d of %d loads without any error" % (cfgname, cut, nb),
                          {"kind": "load", "format": "binary", "config": cfgname, "cut": cut})
    nother = other_entry_points(run, vsim, d, quick, cfgname, "text", text, verdicts, r)
    nother += other_entry_points(run, vsim, d, quick, cfgname, "binary", binary, bverdicts, r)
    nbdis = None
    if bverdicts and tb_line(b"", cfgname) is not None:
        blines = [tb_line(binary[:cut], cfgname) for cut, _ in bverdicts]
        rcm, mout, em = V.run_lines(model, blines, timeout=900)
        nbdis = 0
        for (cut, verdict), mo in zip(bverdicts, mout + ["<none>"] * (len(blines) - len(mout))):
            if mo.strip() != verdict:
                nbdis += 1
                run.mismatch("binary-reader-tie", {"config": cfgname, "cut": cut, "of": nb}, verdict, mo.strip())
    run.cov["correspondence"]["damage_" + cfgname] = {"text_prefixes": len(verdicts), "text_reader_model_disagreements": ndis,
                                                      "binary_prefixes": len(boffs), "binary_prefix_accepted": nacc,
                                                      "binary_reader_model_disagreements": nbdis,
                                                      "prefixes_through_buffer_or_string": nother}
    if os.path.exists(p):
        os.remove(p)


def run_damage(run, vsim, d, quick, model=None):
    r = V.rng("C11damage")
    sess = {"first": 0, "pre": 6, "saves": ["text", "binary"]}
    refs, chunking, rel = reference(vsim, d, sess)
    text, binary = refs
    vt, vb = version_of(sess, 0), version_of(sess, 1)
    blocks = top_level_blocks(text.decode("latin1"))
    obj_blocks = [(a, b, kw) for a, b, kw in blocks if kw != "configuration"]
    stats = {"text_prefixes": 0, "binary_prefixes": 0, "text_flips": 0, "binary_flips": 0, "crashes": 0,
             "text_cut_in_block_accepted": 0, "binary_prefix_accepted": 0}
    p = os.path.join(d.path, "dmg.colvars.state")

    def load(data):
        open(p, "wb").write(data)
        rc, ld = try_load(vsim, d, "dmg.colvars.state")
        return rc, ld

    # sanity: the undamaged files load
    for nm, data, v in (("text", text, vt), ("binary", binary, vb)):
        rc, ld = load(data)
        if rc != 0 or not ld or ld[0] != "ok" or ld[1] != v:
            run.violation("load.valid-state-rejected", "a freshly written %s state does not load (rc=%d, %s)" % (nm, rc, ld),
                          {"kind": "load", "format": nm, "cut": len(data), "scenario": scenario(sess, distinct=True)})
    # where the hill records of the binary state start (8-byte length 4 + "hill")
    pat = struct.pack("<Q", 4) + b"hill"
    hill_starts = [m.start() for m in re.finditer(re.escape(pat), binary)]
    text_verdicts = []
    binary_verdicts = []
    for nm, data in (("text", text), ("binary", binary)):
        n = len(data)
        if quick:
            offs = set(range(0, min(n, 40))) | set(r.sample(range(n), min(n, 110)))
            if nm == "text":
                for a, b, kw in obj_blocks:
                    offs |= {a, a + 1, b - 1, b, b + 1, (a + b) // 2}
            else:
                offs |= set(range(max(0, n - 24), n))
                for h in hill_starts[:2] + hill_starts[-1:]:
                    offs |= set(range(h, h + 14))
        else:
            offs = set(range(n))
        for cut in sorted(o for o in offs if 0 <= o < n):
            rc, ld = load(data[:cut])
            stats[nm + "_prefixes"] += 1
            run.count("%s-prefix-%d" % (nm, cut), True)
            run.dist("damage:%s-prefix" % nm)
            if rc >= 128 or rc == 124 or rc < 0 or ld is None:
                stats["crashes"] += 1
                run.violation("load.crash:%s-prefix" % nm, "loading the first %d of %d bytes of a valid %s state kills or hangs the process (rc=%d)" % (cut, n, nm, rc),
                              {"kind": "load", "format": nm, "cut": cut, "scenario": scenario(sess, distinct=True)})
                continue
            if nm == "text":
                text_verdicts.append((cut, "ok" if ld[0] == "ok" else "err"))
                inside = [kw for a, b, kw in obj_blocks if a < cut <= b]
                if inside and ld[0] == "ok":
                    stats["text_cut_in_block_accepted"] += 1
                    run.violation("load.text-cut-inside-%s-block-accepted" % inside[0],
                                  "a text state cut at byte %d, inside the %s block, loads without any error (LOAD err=ok it=%d)" % (cut, inside[0], ld[1]),
                                  {"kind": "load", "format": nm, "cut": cut, "scenario": scenario(sess, distinct=True)})
            else:
                if cut > 4:
                    binary_verdicts.append((cut, "ok" if ld[0] == "ok" else "err"))
                if ld[0] == "ok" and cut > 4:
                    stats["binary_prefix_accepted"] += 1
                    if cut in hill_starts:
                        # the format has neither a hill count nor an end marker: a file that stops between two hills of the
                        # last bias is a well-formed file with fewer hills
                        run.violation("load.binary-prefix-accepted:at-hill-boundary",
                                      "a binary state cut at byte %d of %d, exactly where a hill record of the last bias starts, loads without any error (%d of %d hills)"
                                      % (cut, n, hill_starts.index(cut), len(hill_starts)),
                                      {"kind": "load", "format": nm, "cut": cut, "scenario": scenario(sess, distinct=True)})
                    else:
                        run.violation("load.binary-prefix-accepted", "a binary state cut at byte %d of %d loads without any error" % (cut, n),
                                      {"kind": "load", "format": nm, "cut": cut, "scenario": scenario(sess, distinct=True)})
        if nm == "text" and model is not None and text_verdicts:
            # tie of the text-reader model (c): error / no error for every prefix explored
            lines = [tx_line(data[:cut].decode("latin1")) for cut, _ in text_verdicts]
            rcm, mout, em = V.run_lines(model, lines, timeout=600)
            ndis = 0
            for (cut, verdict), mo in zip(text_verdicts, mout + ["<none>"] * (len(lines) - len(mout))):
                if mo.strip() != verdict:
                    ndis += 1
                    run.mismatch("text-reader-tie", {"cut": cut, "of": n, "tail": data[max(0, cut - 30):cut].decode("latin1")}, verdict, mo.strip())
            stats["text_reader_model_cases"] = len(lines)
            stats["text_reader_model_disagreements"] = ndis
        if nm == "binary" and model is not None and binary_verdicts:
            # tie of the binary-reader model (d): error / no error for every prefix explored (beyond the magic number)
            lines = [tb_line(data[:cut]) for cut, _ in binary_verdicts]
            rcm, mout, em = V.run_lines(model, lines, timeout=900)
            ndis = 0
            for (cut, verdict), mo in zip(binary_verdicts, mout + ["<none>"] * (len(lines) - len(mout))):
                if mo.strip() != verdict:
                    ndis += 1
                    run.mismatch("binary-reader-tie", {"cut": cut, "of": n, "hill_starts": hill_starts[:3]}, verdict, mo.strip())
            stats["binary_reader_model_cases"] = len(lines)
            stats["binary_reader_model_disagreements"] = ndis
        flips = [(r.randrange(n), r.randrange(8)) for j in range(60 if quick else 600)]
        if nm == "text":
            # aimed: every byte of the configuration block (step, dt, version, units and the separators)
            a0 = data.find(b"{"); b0 = data.find(b"}")
            flips = [(q, 0) for q in range(a0 + 1, b0 + 1)][:100] + flips
        for pos, bit in flips:
            dd = bytearray(data)
            dd[pos] ^= (1 << bit)
            rc, ld = load(bytes(dd))
            stats[nm + "_flips"] += 1
            run.count("%s-flip-%d-%d" % (nm, pos, bit), True)
            run.dist("damage:%s-bitflip" % nm)
            if rc >= 128 or rc == 124 or rc < 0 or ld is None:
                stats["crashes"] += 1
                run.violation("load.crash:%s-bitflip" % nm, "loading a valid %s state with bit %d of byte %d flipped kills or hangs the process (rc=%d)" % (nm, bit, pos, rc),
                              {"kind": "load", "format": nm, "flip": [pos, bit], "scenario": scenario(sess, distinct=True)})
    stats["prefixes_through_buffer_or_string"] = (other_entry_points(run, vsim, d, quick, "base", "text", text, text_verdicts, r) +
                                                  other_entry_points(run, vsim, d, quick, "base", "binary", binary, binary_verdicts, r))
    # crafted: each object of the text state without its name line (check_matching_state: "no identifiers")
    tx = text.decode("latin1")
    crafted = []
    for m in re.finditer(r"\n\s*name \S+\n", tx):
        crafted.append((m.start(), (tx[:m.start()] + "\n" + tx[m.end():]).encode("latin1")))
    cl = []
    for pos, dd in crafted:
        rc, ld = load(dd)
        run.count("text-unnamed-%d" % pos, True)
        run.dist("damage:text-object-without-name")
        if rc >= 128 or rc == 124 or rc < 0 or ld is None:
            run.violation("load.crash:text-unnamed-object", "a text state whose object at byte %d has no name kills or hangs the process (rc=%d)" % (pos, rc),
                          {"kind": "load", "format": "text", "unnamed": pos, "scenario": scenario(sess, distinct=True)})
            continue
        if ld[0] == "ok":
            run.violation("load.text-unnamed-object-accepted", "a text state whose object at byte %d has no name line loads without any error" % pos,
                          {"kind": "load", "format": "text", "unnamed": pos, "scenario": scenario(sess, distinct=True)})
        cl.append((pos, dd, "ok" if ld[0] == "ok" else "err"))
    if model is not None and cl:
        rcm, mout, em = V.run_lines(model, [tx_line(dd.decode("latin1")) for pos, dd, v in cl], timeout=300)
        for (pos, dd, v), mo in zip(cl, mout + ["<none>"] * (len(cl) - len(mout))):
            if mo.strip() != v:
                run.mismatch("text-reader-tie", {"unnamed_object_at": pos}, v, mo.strip())
    stats["text_objects_without_name"] = len(cl)
    if os.path.exists(p):
        os.remove(p)
    run.cov["correspondence"]["damage"] = stats


def replay(rp, vsim, model):
    d = Dir(os.path.join(V.scratch("C11r"), "dir"))
    if rp["kind"] == "crash":
        class R:   # minimal stand-in for Run
            def __getattr__(self, k):
                return lambda *a, **kw: print("  %s %s" % (k, json.dumps(a, default=str)[:600]))
        ok, impl_desc, mparts = run_case(R(), model, vsim, d, rp["case"], True)
        print("impl :", json.dumps(impl_desc))
        print("model:", mparts)
        print("files left in", d.path, {k: (len(v) if v is not None else None) for k, v in d.files().items()})
    elif rp["kind"] == "fsize":
        import resource
        L, sess = rp["limit"], rp["session"]
        scn = os.path.join(d.path, "s.scn")
        open(scn, "w").write(scenario(sess))

        def limit():
            resource.setrlimit(resource.RLIMIT_FSIZE, (L, L))
            resource.setrlimit(resource.RLIMIT_CORE, (0, 0))
        pr = subprocess.run([vsim, scn], cwd=d.path, preexec_fn=limit, stdout=subprocess.PIPE, stderr=subprocess.PIPE, timeout=120)
        print("RLIMIT_FSIZE=%d rc=%d" % (L, pr.returncode), [l for l in pr.stdout.decode("latin1").split("\n") if l.startswith("SAVE")])
        print("files left in", d.path, {k: (len(v) if v is not None else None) for k, v in d.files().items()})
        for nme in (NAME, NAME + ".old"):
            if os.path.exists(os.path.join(d.path, nme)):
                print("load", nme, try_load_(vsim, d, nme))
    elif rp["kind"] in ("load-session", "large-step", "cross-load"):
        if rp["kind"] == "large-step":
            sess = {"first": rp["step"], "pre": 3, "saves": ["text", "binary"]}
            open(os.path.join(d.path, "r.scn"), "w").write(scenario(sess, distinct=True))
            V.sh([vsim, "r.scn"], cwd=d.path, timeout=120)
            nm = "ref%d.colvars.state" % (0 if rp["format"] == "text" else 1)
            print("saved at step", version_of(sess, 0 if rp["format"] == "text" else 1), "->", try_load_(vsim, d, nm, "base", False, rp.get("how", "file")))
        elif rp["kind"] == "cross-load":
            sess = {"first": 0, "pre": 6, "saves": ["text", "binary"]}
            if rp["state_of"] != "base":
                sess["config"] = rp["state_of"]
            refs, chunking, rel = reference(vsim, d, sess)
            open(os.path.join(d.path, "dmg.colvars.state"), "wb").write(refs[0] if rp["format"] == "text" else refs[1])
            print("state of", rp["state_of"], "into", rp["into"], "->", try_load_(vsim, d, "dmg.colvars.state", rp["into"]))
        else:
            cfgname = rp["config"]
            sess = {"first": 0, "pre": 6, "saves": ["text", "binary"]}
            if cfgname != "base":
                sess["config"] = cfgname
            refs, chunking, rel = reference(vsim, d, sess)
            data = refs[0] if rp["format"] == "text" else refs[1]
            for i, c in enumerate(rp["cuts"]):
                open(os.path.join(d.path, "dmg%d.colvars.state" % i), "wb").write(data[:c])
            open(os.path.join(d.path, "dmg4.colvars.state"), "wb").write(data)
            open(os.path.join(d.path, "good.colvars.state"), "wb").write(data)
            open(os.path.join(d.path, "q.scn"), "w").write(rp["scenario"] + "\n")
            rc, out, err = V.sh(["timeout", "-s", "KILL", "30", vsim, "q.scn"], cwd=d.path, timeout=60)
            print("rc", rc, re.findall(r"LOAD err=\S+ it=-?\d+", out), "(dmg4 is the intact state here: the flipped bit is not replayed)")
    elif rp["kind"] == "corrupt-count":
        cfgname = rp.get("config", "base")
        sess = {"first": 0, "pre": 6, "saves": ["text", "binary"]}
        if cfgname != "base":
            sess["config"] = cfgname
        refs, chunking, rel = reference(vsim, d, sess)
        pth = os.path.join(d.path, "dmg.colvars.state")
        if rp["format"] == "binary":
            bb = bytearray(refs[1]); bb[rp["at"]:rp["at"] + 8] = struct.pack("<Q", int(rp["value"])); data = bytes(bb)
        else:
            tx = refs[0].decode("latin1")
            m = re.compile(r"\d+").match(tx, rp["at"])
            data = (tx[:rp["at"]] + str(rp["value"]) + tx[m.end():]).encode("latin1")
        open(pth, "wb").write(refs[1] if rp["format"] == "binary" else refs[0])
        print("intact state: rc, load, maxrss kB =", load_measured(vsim, d, "dmg.colvars.state", cfgname))
        open(pth, "wb").write(data)
        print("corrupt state: rc, load, maxrss kB =", load_measured(vsim, d, "dmg.colvars.state", cfgname), "file:", pth)
    elif rp["kind"] == "load-name":
        sess = {"first": 0, "pre": 3, "saves": ["text", "text"]}
        rel, res, rc = run_session(vsim, d, sess, [])
        print("two saves:", res, {k: (len(v) if v is not None else None) for k, v in d.files().items()})
        print("load %s.old under its own name:" % NAME, try_load_(vsim, d, NAME + ".old"))
        shutil.copy(os.path.join(d.path, NAME + ".old"), os.path.join(d.path, "backup_copy.colvars.state"))
        print("load a copy named backup_copy.colvars.state:", try_load_(vsim, d, "backup_copy.colvars.state"))
    else:
        cfgname = rp.get("config", "base")
        sess = {"first": 0, "pre": 6, "saves": ["text", "binary"]} if cfgname == "base" else {"first": 0, "pre": 6, "saves": ["text", "binary"], "config": cfgname}
        refs, chunking, rel = reference(vsim, d, sess)
        data = refs[0] if rp["format"] == "text" else refs[1]
        if "unnamed" in rp:
            tx = data.decode("latin1")
            m = [m for m in re.finditer(r"\n\s*name \S+\n", tx) if m.start() == rp["unnamed"]][0]
            data = (tx[:m.start()] + "\n" + tx[m.end():]).encode("latin1")
        if "cut" in rp:
            data = data[:rp["cut"]]
        if "flip" in rp:
            dd = bytearray(data); dd[rp["flip"][0]] ^= (1 << rp["flip"][1]); data = bytes(dd)
        open(os.path.join(d.path, "dmg.colvars.state"), "wb").write(data)
        print("load:", try_load_(vsim, d, "dmg.colvars.state", cfgname, False, rp.get("how", "file")), "file:", os.path.join(d.path, "dmg.colvars.state"))
