def run_crash(run, model, vsim, quick):
    pass
def replay(rp, vsim, model):
    pass
