# C11: state files are crash-consistent; damaged state never crashes the host; binary stream round trip.
import os, sys, json, re, struct, shutil, signal
import vcommon as V
sys.path.insert(0, os.path.dirname(os.path.abspath(__file__)))
import c11_codec as CODEC
import c11_crash as CRASH

PROP = "coq/C11/Properties_C11.v"
EXTRACT = "coq/C11/Extract_C11.v"
DRIVER = "props/C11/driver.ml"
PROGS = {"c11unit": ["props/C11/unit.cpp"], "vsim": ["harness/vsim_main.cpp"]}


# C11_VARIANT=cov builds the library and the harness programs with gcov instrumentation (coverage of the anchored
# functions under the generated cases: props/C11/NOTES.md, round 4)
V.CXX_VARIANTS.setdefault("cov", ["-O0", "-g", "--coverage"])
VARIANT = os.environ.get("C11_VARIANT", "plain")


def setup():
    V.extract_model("C11", EXTRACT, DRIVER, [])
    for n, s in PROGS.items():
        V.build_prog(n, s)


def check(run):
    quick = run.tier == "quick"
    run.cov["rule"] = (
        "(a) codec: operation sequences on cvm::memory_stream (objects of sizes 1..32, strings, vectors of element size 1..32 and "
        "length 0..6, small max_length, reads past the end, seek/clear), every proper prefix of valid streams, crafted length prefixes "
        "(exact fit, +1, 2^61, 2^63, 2^64-1, products that wrap), typed round trips through the real operators; compared token by "
        "token with the extracted model.  (b) replace protocol: save sequences in several processes with a fault plan (kill before "
        "the k-th file syscall, error return injected into rename/openat/write/close) run under strace; files left on disk and "
        "SAVE outcomes compared with the model; every crash state, plus every prefix of the file being written, is loaded by a fresh "
        "process.  (c) every truncation offset (quick: a stride + all block boundaries + the first bytes of hill records) and random "
        "bit flips of valid text and binary states through vsim load under a timeout (thorough: ASan+UBSan build); every text prefix "
        "is also run through the extracted text-reader model (error / no error compared).  distinct = distinct case text; "
        "non-trivial = a read that delivers or fails on a boundary, a fault plan that changes the outcome, a damaged file")
    run.assumptions += [
        "rename(2) is atomic and a closed file's data is durable (no fsync is issued by the code): OS facts, not modelled",
        "the reader's memory safety on damaged text/binary state files is explored (timeout + exit status, ASan in the thorough tier), not proved",
        "std::vector<T>::max_size() = PTRDIFF_MAX / sizeof(T) (libstdc++) decides when resize would throw in the model",
        "text-reader model: words are white-space separated, braces are words of their own, closing braces end their line; "
        "type-specific state readers consume brace-balanced pieces (hypothesis data_wellformed, proved for the three modelled readers)",
    ]
    st = V.standard_start(run, PROP, EXTRACT, DRIVER, PROGS, variant=VARIANT, extra_ml=())
    if st is None:
        return
    model, exes = st
    CODEC.run_codec(run, model, exes["c11unit"], quick)
    CRASH.run_crash(run, model, exes["vsim"], quick)


def replay(path):
    j = json.load(open(path))
    rp = j["replay"]
    print(json.dumps(j, indent=1)[:4000])
    kind = rp.get("kind")
    if kind == "unit":
        unit = V.build_prog("c11unit", PROGS["c11unit"])
        model = V.extract_model("C11", EXTRACT, DRIVER, [])
        print("impl :", V.run_lines(unit, [rp["case"]])[1])
        if rp["case"].startswith("MS"):
            print("model:", V.run_lines(model, [rp["case"]])[1])
    elif kind in ("crash", "load", "load-name", "fsize", "corrupt-count", "load-session", "large-step", "cross-load"):
        vsim = V.build_prog("vsim", PROGS["vsim"])
        model = V.extract_model("C11", EXTRACT, DRIVER, [])
        CRASH.replay(rp, vsim, model)
    return 0
