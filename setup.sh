#!/bin/sh
# Build the framework from files on disk only (offline): C++ library from /repo's tree,
# the whole Coq development (full .vo build), extracted models and harness programs.
cd "$(dirname "$0")"
exec python3 tools/setup.py
