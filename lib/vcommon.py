# Shared machinery of the /verif checks: builds (C++ library from /repo's working tree,
# Coq development, extracted OCaml models), evidence and verdict handling.
import contextlib, fcntl, hashlib, json, os, re, shutil, subprocess, sys, time, glob, random

ROOT = os.path.dirname(os.path.dirname(os.path.abspath(__file__)))
REPO = os.environ.get("VERIF_REPO", "/repo")
BUILD = os.environ.get("VERIF_BUILD", os.path.join(ROOT, "build"))
COQ = os.path.join(ROOT, "coq")
NPROC = int(os.environ.get("VERIF_JOBS", "16"))
GUARD = "COLVARS_VERIF"

CXX_VARIANTS = {
    "plain": ["-O1", "-g0"],
    "cov": ["-O0", "-g", "--coverage"],     # line coverage of /repo/src (gcov), used by slices to measure what their streams reach
    "asan": ["-O1", "-g", "-fsanitize=address,undefined", "-fno-sanitize-recover=all",
             "-fno-omit-frame-pointer"],
}
CXX_BASE = ["-std=c++11", "-fopenmp", "-D" + GUARD, "-I" + os.path.join(REPO, "src"),
            "-I" + os.path.join(ROOT, "harness"), "-w"]


class InfraError(Exception):
    pass


def sh(cmd, timeout=1200, cwd=None, env=None, check=False, input=None):
    """Run a command (list) and return (rc, stdout, stderr)."""
    e = dict(os.environ)
    if env:
        e.update(env)
    try:
        p = subprocess.run(cmd, cwd=cwd, env=e, timeout=timeout, input=input,
                           stdout=subprocess.PIPE, stderr=subprocess.PIPE, text=True,
                           errors="replace")
    except subprocess.TimeoutExpired as ex:
        return 124, (ex.stdout or b"").decode("utf8", "replace") if isinstance(ex.stdout, bytes) else (ex.stdout or ""), "TIMEOUT"
    if check and p.returncode != 0:
        raise InfraError("command failed (%d): %s\n%s\n%s" % (p.returncode, " ".join(cmd), p.stdout[-3000:], p.stderr[-3000:]))
    return p.returncode, p.stdout, p.stderr


def file_hash(path):
    h = hashlib.sha1()
    with open(path, "rb") as f:
        h.update(f.read())
    return h.hexdigest()


def _load_json(p, default):
    try:
        with open(p) as f:
            return json.load(f)
    except Exception:
        return default


# ----------------------------------------------------------------------------------------
# C++: library from /repo's working tree, incremental by content hash
# ----------------------------------------------------------------------------------------

@contextlib.contextmanager
def flock(name):
    """Exclusive inter-process lock (several checks may run at the same time and share build/ and coq/)."""
    os.makedirs(BUILD, exist_ok=True)
    f = open(os.path.join(BUILD, ".lock_" + name), "w")
    try:
        fcntl.flock(f, fcntl.LOCK_EX)
        yield
    finally:
        fcntl.flock(f, fcntl.LOCK_UN)
        f.close()


def build_lib(variant="plain"):
    with flock("lib_" + variant):
        return _build_lib(variant)


def _build_lib(variant="plain"):
    """Compile /repo/src/*.cpp (current working tree) with -DCOLVARS_VERIF into
    build/<variant>/libcolvars_verif.a; recompiles what changed (all, when a header changed)."""
    flags = CXX_VARIANTS[variant]
    out = os.path.join(BUILD, variant)
    obj = os.path.join(out, "obj")
    os.makedirs(obj, exist_ok=True)
    src = os.path.join(REPO, "src")
    hdrs = sorted(glob.glob(os.path.join(src, "*.h")))
    cpps = sorted(glob.glob(os.path.join(src, "*.cpp")))
    stamp_path = os.path.join(out, "stamp.json")
    stamp = _load_json(stamp_path, {})
    hh = hashlib.sha1()
    for h in hdrs:
        hh.update(file_hash(h).encode())
    hh.update(" ".join(flags + CXX_BASE).encode())
    hdr_hash = hh.hexdigest()
    todo = []
    new_stamp = {"hdr": hdr_hash, "cpp": {}}
    for c in cpps:
        ch = file_hash(c)
        new_stamp["cpp"][c] = ch
        o = os.path.join(obj, os.path.basename(c)[:-4] + ".o")
        if stamp.get("hdr") != hdr_hash or stamp.get("cpp", {}).get(c) != ch or not os.path.exists(o):
            todo.append((c, o))
    lib = os.path.join(out, "libcolvars_verif.a")
    if todo or not os.path.exists(lib):
        procs = []
        errs = []
        def reap(block):
            for pr in list(procs):
                if block:
                    pr[0].wait()
                if pr[0].poll() is not None:
                    procs.remove(pr)
                    if pr[0].returncode != 0:
                        errs.append((pr[1], pr[0].stderr.read().decode("utf8", "replace")))
        for c, o in todo:
            while len(procs) >= NPROC:
                reap(False)
                time.sleep(0.02)
            p = subprocess.Popen(["g++"] + CXX_BASE + flags + ["-c", c, "-o", o],
                                 stdout=subprocess.DEVNULL, stderr=subprocess.PIPE)
            procs.append((p, c))
        while procs:
            reap(True)
        if errs:
            # the tree does not compile: not a verdict about any property
            raise InfraError("compilation of /repo failed: %s\n%s" % (errs[0][0], errs[0][1][-3000:]))
        # remove objects of deleted sources
        keep = set(os.path.basename(c)[:-4] + ".o" for c in cpps)
        for o in os.listdir(obj):
            if o not in keep and o.endswith(".o"):     # (coverage builds keep their .gcno/.gcda notes next to the objects)
                os.remove(os.path.join(obj, o))
        if os.path.exists(lib):
            os.remove(lib)
        sh(["ar", "rcs", lib] + sorted(glob.glob(os.path.join(obj, "*.o"))), check=True)
        with open(stamp_path, "w") as f:
            json.dump(new_stamp, f)
    return lib


def build_prog(name, sources, variant="plain", extra=None):
    lib = build_lib(variant)
    with flock("prog_" + variant + "_" + name):
        return _build_prog(lib, name, sources, variant, extra)


def _build_prog(lib, name, sources, variant="plain", extra=None):
    """Build a harness program from sources (paths relative to /verif) against the library."""
    out = os.path.join(BUILD, variant, "bin")
    os.makedirs(out, exist_ok=True)
    exe = os.path.join(out, name)
    srcs = [os.path.join(ROOT, s) for s in sources]
    deps = srcs + glob.glob(os.path.join(ROOT, "harness", "*.h")) + [lib]
    hh = hashlib.sha1()
    for d in deps:
        hh.update(file_hash(d).encode())
    hh.update(" ".join(extra or []).encode())
    key = hh.hexdigest()
    kp = exe + ".key"
    if os.path.exists(exe) and os.path.exists(kp) and open(kp).read() == key:
        return exe
    cmd = ["g++"] + CXX_BASE + CXX_VARIANTS[variant] + srcs + [lib, "-lpthread", "-o", exe] + (extra or [])
    rc, o, e = sh(cmd, timeout=900)
    if rc != 0:
        raise InfraError("harness program %s failed to build:\n%s" % (name, e[-4000:]))
    with open(kp, "w") as f:
        f.write(key)
    return exe


# ----------------------------------------------------------------------------------------
# Coq
# ----------------------------------------------------------------------------------------

FORBIDDEN = re.compile(r"\b(Admitted|admit|Axiom|Axioms|Parameter|Parameters|Conjecture|Admit Obligations|"
                       r"Unset Guard Checking|bypass_check|Unset Positivity Checking|Unset Universe Checking)\b"
                       r"|-type-in-type|-impredicative-set|native_compute")


def coq_project():
    """(Re)generate coq/_CoqProject and coq/Makefile from the .v files present."""
    vs = []
    for d, _, fs in os.walk(COQ):
        for f in fs:
            if f.endswith(".v"):
                vs.append(os.path.relpath(os.path.join(d, f), COQ))
    vs.sort()
    content = "-Q . CV\n-arg -w -arg -notation-overridden,-deprecated,-ambiguous-paths,-deprecated-hint-without-locality,-deprecated-instance-without-locality\n" + "\n".join(vs) + "\n"
    cp = os.path.join(COQ, "_CoqProject")
    old = open(cp).read() if os.path.exists(cp) else None
    if old != content or not os.path.exists(os.path.join(COQ, "Makefile")):
        with open(cp, "w") as f:
            f.write(content)
        sh(["coq_makefile", "-f", "_CoqProject", "-o", "Makefile"], cwd=COQ, check=True)
    return vs


def coq_gate(files=None):
    """Refuse forbidden vernacular anywhere in the development."""
    bad = []
    for d, _, fs in os.walk(COQ):
        for f in fs:
            if f.endswith(".v"):
                p = os.path.join(d, f)
                txt = open(p).read()
                # strip comments (non-nested is enough for the gate: a forbidden word inside a
                # comment would only cause a refusal, never an acceptance)
                for m in FORBIDDEN.finditer(re.sub(r"\(\*.*?\*\)", "", txt, flags=re.S)):
                    bad.append("%s: %s" % (os.path.relpath(p, ROOT), m.group(0)))
    return bad


def coq_make(targets, timeout=3000):
    """make -k the given .vo targets (relative to coq/). Returns (rc, log)."""
    coq_project()
    with flock("coq"):
        rc, o, e = sh(["make", "-k", "-j%d" % NPROC] + targets, cwd=COQ, timeout=timeout,
                      env={"TIMED": ""})
    return rc, o + "\n" + e


def coq_check_properties(pid, propfile):
    """Build the dependencies of the property file with make, then compile the property file
    itself with coqc (always, so that the Print Assumptions output of *this run* is captured).
    Returns dict(theorems=[...], discharged=[...], failed=[...], assumptions={thm: [axioms]}, log=str)."""
    t0 = time.time()
    vs = coq_project()
    rel = os.path.relpath(os.path.join(ROOT, propfile), COQ)
    txt = open(os.path.join(COQ, rel)).read()
    thms = re.findall(r"^\s*(?:Theorem|Corollary)\s+([A-Za-z0-9_']+)", txt, flags=re.M)
    res = {"theorems": thms, "discharged": [], "failed": [], "assumptions": {}, "log": "", "gate": []}
    res["gate"] = coq_gate()
    # dependencies
    with flock("coq"):
        rc, o, e = sh(["make", "-k", "-j%d" % NPROC, rel[:-2] + ".vo"], cwd=COQ, timeout=3000)
    res["log"] = (o + "\n" + e)[-8000:]
    if rc == 0:
        # recompile the property file to capture assumptions (output to a private file: other checks may read the .vo)
        import tempfile
        os.makedirs(BUILD, exist_ok=True)
        tmpd = tempfile.mkdtemp(prefix="props_%s_" % pid, dir=BUILD)
        rc2, o2, e2 = sh(["coqc", "-Q", ".", "CV", "-w", "-notation-overridden,-deprecated,-ambiguous-paths",
                          "-o", os.path.join(tmpd, os.path.basename(rel)[:-2] + ".vo"), rel], cwd=COQ, timeout=1200)
        shutil.rmtree(tmpd, ignore_errors=True)
        res["log"] += "\n" + (o2 + e2)[-8000:]
        if rc2 == 0:
            res["discharged"] = list(thms)
            # parse Print Assumptions blocks: they come in order of appearance
            blocks = re.split(r"(?m)^(?=Closed under the global context|Axioms:)", o2)
            blocks = [b for b in blocks if b.startswith("Closed under") or b.startswith("Axioms:")]
            pa = re.findall(r"Print Assumptions\s+([A-Za-z0-9_']+)", txt)
            for name, b in zip(pa, blocks):
                if b.startswith("Closed under"):
                    res["assumptions"][name] = []
                else:
                    ax = re.findall(r"(?m)^([A-Za-z0-9_'.]+)\s*:", b[len("Axioms:"):])
                    res["assumptions"][name] = sorted(set(ax))
        else:
            res["failed"] = list(thms)
    else:
        # find which theorems fail: the property file did not compile; everything in it is undischarged
        res["failed"] = list(thms)
    res["wall_s"] = time.time() - t0
    return res


def extract_model(pid, extract_v, driver_ml, extra_ml=()):
    """Compile coq/<extract_v> (which must `Extraction "model.ml" ...`) in a per-property build dir
    and link it with the OCaml driver. Returns path of the executable."""
    coq_project()
    rel = os.path.relpath(os.path.join(ROOT, extract_v), COQ)
    rc, log = coq_make([rel[:-2] + ".vo"])  # dependencies + the file itself (writes ml into coq/)
    d = os.path.join(BUILD, "ocaml", pid)
    os.makedirs(d, exist_ok=True)
    # run coqc from the build dir so that the .ml lands there
    rc, o, e = sh(["coqc", "-Q", COQ, "CV", "-w", "-notation-overridden,-deprecated,-ambiguous-paths,-extraction",
                   "-o", os.path.join(d, os.path.basename(rel)[:-2] + ".vo"), os.path.join(COQ, rel)], cwd=d, timeout=1200)
    if rc != 0:
        raise ModelBroken("extraction of %s failed:\n%s" % (extract_v, (o + e)[-4000:]))
    # clean stray outputs that make may have put in coq/
    with flock("coq"):
        for f in glob.glob(os.path.join(COQ, "*.ml")) + glob.glob(os.path.join(COQ, "*.mli")):
            try:
                os.remove(f)
            except OSError:
                pass
    srcs = []
    for f in sorted(glob.glob(os.path.join(d, "*.mli"))):
        pass
    mls = [f for f in sorted(glob.glob(os.path.join(d, "*.ml"))) if os.path.basename(f) not in ("driver.ml",) and not os.path.basename(f).startswith("x_")]
    for x in list(extra_ml) + [driver_ml]:
        dst = os.path.join(d, "x_" + os.path.basename(x)) if x != driver_ml else os.path.join(d, "driver.ml")
        shutil.copy(os.path.join(ROOT, x), dst)
    # module order: extracted model(s) first (single file by convention), then extras, then driver
    order = []
    for m in mls:
        mli = m[:-3] + ".mli"
        if os.path.exists(mli):
            order.append(mli)
        order.append(m)
    order += [os.path.join(d, "x_" + os.path.basename(x)) for x in extra_ml]
    order.append(os.path.join(d, "driver.ml"))
    exe = os.path.join(d, "vmodel")
    rc, o, e = sh(["ocamlfind", "ocamlopt", "-w", "-a", "-package", "str", "-linkpkg", "-I", d] + order + ["-o", exe], cwd=d, timeout=900)
    if rc != 0:
        raise ModelBroken("OCaml build of model %s failed:\n%s" % (pid, (o + e)[-4000:]))
    return exe


class ModelBroken(Exception):
    pass


def run_lines(exe, lines, timeout=600, cwd=None, env=None):
    """feed case lines to a driver that answers one line per case"""
    rc, o, e = sh([exe] if isinstance(exe, str) else exe, input="\n".join(lines) + "\n", timeout=timeout, cwd=cwd, env=env)
    out = o.split("\n")
    if out and out[-1] == "":
        out.pop()
    return rc, out, e


def scratch(pid):
    d = os.path.join(BUILD, "scratch", pid)
    if os.path.exists(d):
        shutil.rmtree(d, ignore_errors=True)
    os.makedirs(d, exist_ok=True)
    return d


# ----------------------------------------------------------------------------------------
# PRNG (one state per run, derived from VERIF_SEED)
# ----------------------------------------------------------------------------------------

def seed():
    try:
        return int(os.environ.get("VERIF_SEED", "1"))
    except ValueError:
        return 1


def rng(salt=""):
    return random.Random("%d/%s" % (seed(), salt))


def dyadic(r, lo, hi, bits=6):
    """random dyadic rational k/2^bits in [lo, hi]"""
    k = r.randint(int(lo * (1 << bits)), int(hi * (1 << bits)))
    return k / float(1 << bits)


def hexf(x):
    return float(x).hex()


# ----------------------------------------------------------------------------------------
# Findings / verdicts / evidence
# ----------------------------------------------------------------------------------------

def known_findings():
    """known_findings.txt: lines `known: property=<id> signature=<sig> <text>` and `fixed: ...`."""
    out = {}
    p = os.path.join(ROOT, "known_findings.txt")
    if not os.path.exists(p):
        return out
    for line in open(p):
        line = line.strip()
        m = re.match(r"known:\s+property=(\S+)\s+signature=(\S+)\s+(.*)", line)
        if m:
            out[(m.group(1), m.group(2))] = m.group(3)
    return out


class Run:
    """One check run of one property: collects obligations, correspondence counts, violations."""

    def __init__(self, pid, tier, level="proof"):
        self.pid = pid
        self.tier = tier
        self.level = level
        self.t0 = time.time()
        self.seed = seed()
        self.known = known_findings()
        self.violations = []      # (signature, description, replay dict)
        self.known_hit = []
        self.cov = {"evaluations": 0, "distinct_nontrivial": 0, "rule": "", "samples": [],
                    "obligations": 0, "discharged": 0, "checker_cmd": "", "trusted_base": [],
                    "theorems": [], "axioms": {}, "correspondence": {}, "distribution": {}}
        self.assumptions = []
        self._distinct = set()
        self.notes = []

    # -- proof part
    def prove(self, propfile):
        r = coq_check_properties(self.pid, propfile)
        self.cov["obligations"] += len(r["theorems"])
        self.cov["discharged"] += len(r["discharged"])
        self.cov["theorems"] += r["theorems"]
        self.cov["axioms"].update(r["assumptions"])
        self.cov["checker_cmd"] = "make -k -C coq %s.vo && coqc -Q . CV %s (Coq 8.16.1 kernel; vm_compute used, native_compute not used)" % (propfile[4:-2] if propfile.startswith("coq/") else propfile, propfile)
        self.cov["proof_wall_s"] = round(r["wall_s"], 1)
        if r["gate"]:
            self.violation("proof-gate", "forbidden vernacular in the development: %s" % ", ".join(r["gate"][:5]),
                           {"kind": "proof", "theorem": "gate", "detail": r["gate"]}, found_input=False)
        if r["failed"]:
            self.broken_theorems = getattr(self, "broken_theorems", []) + r["failed"]
            self.proof_log = r["log"]
        else:
            self.broken_theorems = getattr(self, "broken_theorems", [])
            if self.tier == "thorough":
                self.coqchk(propfile)
        return r

    def coqchk(self, propfile):
        """thorough tier: re-check the compiled property library (and everything it depends on) with the
        independent checker coqchk, and record the axioms it reports (-o)."""
        rel = os.path.relpath(os.path.join(ROOT, propfile), COQ)
        mod = "CV." + rel[:-2].replace("/", ".")
        t0 = time.time()
        rc, o, e = sh(["coqchk", "-silent", "-o", "-Q", ".", "CV", mod], cwd=COQ, timeout=3000)
        txt = o + e
        ck = {"module": mod, "rc": rc, "wall_s": round(time.time() - t0, 1)}
        m = re.search(r"\* Axioms:(.*?)(?:\n\s*\n\* |\Z)", txt, flags=re.S)
        if m:
            ck["axioms"] = [a.strip() for a in m.group(1).strip().split("\n") if a.strip()][:60]
        self.cov.setdefault("coqchk", []).append(ck)
        if rc == 124:
            self.notes.append("coqchk timed out on %s (not a verdict)" % mod)
        elif rc != 0:
            self.broken_theorems = getattr(self, "broken_theorems", []) + ["coqchk:" + mod]
            self.proof_log = txt[-3000:]

    def count(self, case_key, nontrivial=True):
        self.cov["evaluations"] += 1
        if nontrivial and case_key not in self._distinct:
            self._distinct.add(case_key)
            self.cov["distinct_nontrivial"] = len(self._distinct)

    def sample(self, s, cap=6):
        if len(self.cov["samples"]) < cap:
            self.cov["samples"].append(s)

    def dist(self, key, n=1):
        d = self.cov["distribution"]
        d[key] = d.get(key, 0) + n

    def violation(self, signature, what, replay, found_input=True):
        """Report a failing case. Listed in known_findings.txt by signature -> KNOWN-FINDING."""
        k = (self.pid, signature)
        if k in self.known:
            if signature not in [s for s, _ in self.known_hit]:
                self.known_hit.append((signature, self.known[k]))
            return False
        self.violations.append((signature, what, replay, found_input))
        return True

    # -- tie part
    def mismatch(self, component, case, impl, model):
        """implementation and model disagree on a case (correspondence broken)"""
        if not hasattr(self, "mismatches"):
            self.mismatches = {}
        self.mismatches.setdefault(component, []).append({"case": case, "impl": impl, "model": model})

    def conclude(self):
        """Turn broken theorems / broken correspondences into verdicts.  A concrete failing input
        found by an oracle (self.violation(..., found_input=True)) is the replay; otherwise the
        theorem / component that no longer checks is named and the line ends with
        no-failing-input-found."""
        have_input = any(f for (_, _, _, f) in self.violations) or bool(self.known_hit)
        mm = getattr(self, "mismatches", {})
        self.cov["correspondence"]["mismatching_components"] = {k: len(v) for k, v in mm.items()}
        for comp, lst in mm.items():
            toks = set(t for t in comp.split(":") if t not in ("tie", "unit", "value", "oracle", "impl", "model"))
            def related(sig):
                return sig.startswith(comp) or comp in sig or bool(toks & set(sig.split(":")))
            if not any(related(sig) for (sig, _, _, f) in self.violations if f):
                if (self.pid, "tie:" + comp) in self.known:
                    self.violation("tie:" + comp, "", {})
                    continue
                self.violations.append(("tie:" + comp,
                    "correspondence %s no longer checks: implementation and model disagree on %d case(s), e.g. %s; "
                    "no failing input for the property itself was found" % (comp, len(lst), json.dumps(lst[0], default=str)[:600]),
                    {"kind": "correspondence", "component": comp, "first": lst[:5]}, False))
        bt = getattr(self, "broken_theorems", [])
        if bt:
            found = [v for v in self.violations if v[3]]
            if not found:
                self.violations.append(("proof:" + bt[0],
                    "theorem(s) %s no longer check (coqc failed); no failing input found" % ", ".join(bt),
                    {"kind": "proof", "theorems": bt, "log": getattr(self, "proof_log", "")[-3000:]}, False))

    def finish(self):
        self.conclude()
        os.makedirs(os.path.join(ROOT, "evidence"), exist_ok=True)
        os.makedirs(os.path.join(ROOT, "replays"), exist_ok=True)
        for sig, txt in self.known_hit:
            print("KNOWN-FINDING: property=%s %s [%s]" % (self.pid, txt, sig))
        seen = set()
        nviol = 0
        for i, (sig, what, replay, found) in enumerate(self.violations):
            if sig in seen:
                continue
            seen.add(sig)
            nviol += 1
            path = os.path.join(ROOT, "replays", "%s-%d-%d.json" % (self.pid, self.seed, i))
            with open(path, "w") as f:
                json.dump({"property": self.pid, "signature": sig, "what": what, "replay": replay,
                           "seed": self.seed, "tier": self.tier}, f, indent=1, default=str)
            print("VIOLATION property=%s replay=%s%s" % (self.pid, path, "" if found else " no-failing-input-found"))
            print("  # %s: %s" % (sig, what[:500]))
        cov = self.cov
        if not cov["samples"]:
            cov["samples"] = ["(no case was generated)"]
        ev = {"property_id": self.pid, "tier": self.tier, "seed": self.seed, "level": self.level,
              "coverage": cov, "assumptions": self.assumptions, "wall_s": round(time.time() - self.t0, 2),
              "violations": nviol, "known_findings_reproduced": [s for s, _ in self.known_hit],
              "notes": self.notes}
        with open(os.path.join(ROOT, "evidence", self.pid + ".json"), "w") as f:
            json.dump(ev, f, indent=1, default=str)
        print("%s: tier=%s seed=%d theorems=%d/%d cases=%d distinct_nontrivial=%d violations=%d known=%d wall=%.1fs" % (
            self.pid, self.tier, self.seed, cov["discharged"], cov["obligations"], cov["evaluations"],
            cov["distinct_nontrivial"], nviol, len(self.known_hit), time.time() - self.t0))
        return 1 if nviol else 0


def standard_start(run, propfiles, extract_v=None, driver_ml=None, progs=None, variant="plain", extra_ml=("ocaml/fops.ml",)):
    """The common first half of every check: prove the property file(s), extract+build the model,
    build the harness programs against /repo's current tree.  Returns (model_exe, {name: exe}) or
    None when the tie cannot even be built (already reported as a violation without failing input)."""
    if isinstance(propfiles, str):
        propfiles = [propfiles]
    axioms = {}
    for pf in propfiles:
        res = run.prove(pf)
        axioms.update(res["assumptions"])
    run.cov["trusted_base"] = TRUSTED_COMMON + ["axioms per theorem (Print Assumptions): " + json.dumps(axioms)]
    run.assumptions += TRUSTED_COMMON
    model = None
    if extract_v:
        try:
            model = extract_model(run.pid, extract_v, driver_ml, list(extra_ml))
        except ModelBroken as e:
            run.violation("tie:model-build", "the model no longer extracts/compiles: %s" % str(e)[-800:],
                          {"kind": "model-build", "log": str(e)[-3000:]}, found_input=False)
            return None
    exes = {}
    try:
        for name, srcs in (progs or {}).items():
            exes[name] = build_prog(name, srcs, variant)
    except InfraError as e:
        if "compilation of /repo failed" in str(e):
            raise
        run.violation("tie:harness-build", "the harness no longer builds against the tree: %s" % str(e)[-800:],
                      {"kind": "harness-build", "log": str(e)[-3000:]}, found_input=False)
        return None
    return model, exes


TRUSTED_COMMON = [
    "Coq 8.16.1 kernel (coqc); vm_compute is used inside proofs; native_compute is not used",
    "extraction to OCaml with the directives of ExtrOcamlBasic only (bool, option, list, prod, unit, sumbool); Z/N/positive stay the extracted inductive types",
    "OCaml 4.13.1 compiler and the hand-written driver (parsing of case files, float instance of NumOps, printing)",
    "python generators/comparators in /verif/props and the C++ harness programs that present inputs to the real code and print what it returns",
    "g++ build of /repo/src from the current working tree with -DCOLVARS_VERIF (guarded hooks only add read-only accessors)",
    "what is modelled is a hand-written Gallina mirror of the C++; the C++ itself is never the object of a theorem, the tie is the differential run of this check",
]
