// Engine simulator for the /verif checks: a colvarproxy that plays the MD engine for a
// scenario (atoms, positions and engine forces per step, periodic cell, time step, temperature,
// force-timing convention, run boundaries, save/load/fresh, script commands, SMP schedules).
// Everything goes through the public engine interface of Colvars.
#ifndef VSIM_H
#define VSIM_H

#include <cstdio>
#include <cstdlib>
#include <cstring>
#include <cmath>
#include <iostream>
#include <fstream>
#include <sstream>
#include <string>
#include <vector>
#include <map>
#include <algorithm>
#include <functional>
#include <thread>
#include <mutex>
#include <atomic>
#if defined(_OPENMP)
#include <omp.h>
#endif
#include <unistd.h>
#include <poll.h>
#include <errno.h>

#include "colvarmodule.h"
#include "colvar.h"
#include "colvarbias.h"
#include "colvarscript.h"
#include "colvaratoms.h"
#include "colvarproxy.h"

struct vsim_engine {
  // engine-side data that survives "fresh"
  int natoms = 0;
  std::vector<double> mass, charge;
  std::vector<cvm::rvector> pos, eforce;       // engine's own force at the current configuration
  std::vector<cvm::rvector> prev_total;        // force that acted at the previous step (engine + colvars)
  bool has_cell = false;
  double L[3] = {0, 0, 0};
  double dt = 1.0, temperature = 0.0;
  bool provide_total_forces = true;
  bool tf_only_on_request = false;             // `tfonrequest 1`: export total forces only while Colvars requests them (NAMD/LAMMPS-like)
  bool same_step = true;                       // total_forces_same_step()
  bool include_cv_forces = true;               // lagged mode: total force includes Colvars' own force
  std::string prefix = "";
  int restart_freq = 0;
  std::vector<double> gauss;                   // controlled random source
  size_t gauss_pos = 0;
  // smp
  std::string smp = "serial";                  // serial | omp | perm
  std::vector<int> perm;                       // explicit permutation for "perm"
  int nthreads = 1;
  // scripted forces (scriptedColvarForces): script commands run by run_force_callback() at every calc()
  std::vector<std::vector<std::string> > force_script;
  // replicas (multiple walkers): this process is walker rep_index of rep_num; rep_fd[p] is a connected
  // stream socket to walker p (-1 for itself).  Empty rep_fd = no replica support (the default).
  int rep_index = 0, rep_num = 1;
  std::vector<int> rep_fd;
  int rep_timeout_ms = 30000;
  long rep_msgs_sent = 0, rep_msgs_recv = 0, rep_barriers = 0, rep_errors = 0;
  long rep_in_parallel = 0;                    // (C14) replica calls made from inside the parallel loop over the biases
  long rep_die_after = -1;                     // (C14) "repdie N": the process ends at its (N+1)-th replica call from now (before performing it)
  bool in_biases_loop = false;
  std::vector<int> assign;                     // (C12) explicit thread of the k-th executed item (default: k mod nthreads)
  std::vector<std::pair<std::string, double> > script_forces;  // (C12) scripted-force task: force added to named scalar variables
  void resize(int n) {
    natoms = n;
    mass.assign(n, 1.0); charge.assign(n, 0.0);
    pos.assign(n, cvm::rvector(0, 0, 0)); eforce.assign(n, cvm::rvector(0, 0, 0));
    prev_total.assign(n, cvm::rvector(0, 0, 0));
  }
};


class vsim_proxy : public colvarproxy {
public:
  vsim_engine *eng;
  bool first_step;
  bool next_is_boundary;
  double bias_energy;
  std::vector<double> energies_added;
  bool quiet;
  std::ostream *logos;
  std::string errtext;
  std::mutex smp_mutex;
  static thread_local int my_thread_id;
  // (C12) the work items of the last SMP loops, as the module built them
  std::vector<std::pair<std::string, int> > last_cvc_items;
  std::vector<std::string> last_bias_items;
  bool cvc_loop_ran = false, bias_loop_ran = false;
  std::vector<int> last_item_threads;          // (C12) OpenMP thread of every item of the last component loop (smp omp)
  // (C12) script callbacks: the engine has ONE interpreter.  Every entry records the thread and whether a parallel loop of the module
  // is running; scripted variables must be combined in the serial collection phase on the main thread (only the scripted-force task may
  // run inside the bias loop).  The interpreter has a single result slot, like Tcl's interp result.
  std::atomic<int> loops_running{0};
  std::atomic<int> callback_violations{0};
  std::string first_callback_violation;
  double interp_result = 0.0;
  void note_callback(char const *what)
  {
    int const t = (eng->smp == "omp") ? colvarproxy_smp_thread() : my_thread_id;
    bool const in_region = (loops_running.load() > 0)
#if defined(_OPENMP)
      || (omp_in_parallel() != 0)
#endif
      ;
    if (in_region || t != 0) {
      if (callback_violations.fetch_add(1) == 0) {
        std::lock_guard<std::mutex> g(log_mutex);
        first_callback_violation = std::string(what) + " thread=" + std::to_string(t) + " inside_parallel_loop=" + (in_region ? "1" : "0");
      }
    }
  }
  static int colvarproxy_smp_thread()
  {
#if defined(_OPENMP)
    return omp_get_thread_num();
#else
    return 0;
#endif
  }

  vsim_proxy(vsim_engine *e, bool quiet_in = true) : eng(e), quiet(quiet_in)
  {
    logos = NULL;
    engine_name_ = "vsim";
    version_int = get_version_from_string(COLVARS_VERSION);
    b_simulation_running = true;
    b_simulation_continuing = false;
    first_step = true;
    next_is_boundary = false;
    bias_energy = 0.0;
    updated_masses_ = updated_charges_ = true;
    total_force_requested = false;
    restart_frequency_engine = eng->restart_freq;
    set_integration_timestep(eng->dt);
    set_target_temperature(eng->temperature);
    angstrom_value_ = 1.0;
    kcal_mol_value_ = 1.0;
    units = "real";
    boltzmann_ = 0.001987191;
    if (eng->smp == "serial") smp_mode = smp_mode_t::none; else smp_mode = smp_mode_t::cvcs;
    colvars = new colvarmodule(this);
    colvars->cv_traj_freq = 0;
    if (eng->prefix.size()) {
      set_output_prefix(eng->prefix);
      colvars->cv_traj_freq = 1;
    }
    colvars->restart_out_freq = eng->restart_freq;
    cvm::rotation::monitor_crossings = false;
    colvars->setup_input();
    colvars->setup_output();
    update_cell();
    colvars->update_engine_parameters();
  }

  ~vsim_proxy() override {}

  void update_cell()
  {
    if (eng->has_cell) {
      boundaries_type = boundaries_pbc_ortho;
      unit_cell_x.set(eng->L[0], 0, 0);
      unit_cell_y.set(0, eng->L[1], 0);
      unit_cell_z.set(0, 0, eng->L[2]);
      update_pbc_lattice();
    } else {
      boundaries_type = boundaries_non_periodic;
      reset_pbc_lattice();
    }
  }

  int set_unit_system(std::string const &units_in, bool /*check_only*/) override
  {
    if (units_in != "real") {
      cvm::error("Error: vsim only supports the real unit system.\n", COLVARS_INPUT_ERROR);
      return COLVARS_ERROR;
    }
    return COLVARS_OK;
  }

  std::mutex log_mutex;   // (C12) items running on several threads may log at the same time
  void log(std::string const &message) override
  {
    if (!logos && quiet) return;    // nothing to write: take no lock (a lock here would order the threads for TSan)
    std::lock_guard<std::mutex> g(log_mutex);
    if (logos) (*logos) << message;
    if (!quiet) std::cerr << "colvars: " << message;
  }
  void error(std::string const &message) override
  {
    std::lock_guard<std::mutex> g(log_mutex);
    add_error_msg(message);
    errtext += message;
    if (logos) (*logos) << message;
    if (!quiet) std::cerr << "colvars: " << message;
  }

  void request_total_force(bool yesno) override { total_force_requested = yesno; }
  bool total_forces_enabled() const override { return total_force_requested; }
  bool total_forces_same_step() const override { return eng->same_step; }

  cvm::real rand_gaussian() override
  {
    if (eng->gauss.size()) {
      double g = eng->gauss[eng->gauss_pos % eng->gauss.size()];
      eng->gauss_pos++;
      return g;
    }
    return 0.0;
  }

  void add_energy(cvm::real e) override { bias_energy += e; energies_added.push_back(e); }


  // scripted-forces callback (scriptedColvarForces on): unset => same answer as the base class
  // (run_force_callback() below uses it when set, then the C12 `forcescript` list)
  std::function<int()> force_callback;

  int check_atom_id(int atom_number) override
  {
    // (no arithmetic on an unchecked number: atom_number may be INT_MIN)
    int aid = (atom_number >= 1) ? (atom_number - 1) : -1;
    if (aid < 0 || aid >= eng->natoms) {
      cvm::error("Error: invalid atom number specified, " + cvm::to_str(atom_number) + "\n",
                 COLVARS_INPUT_ERROR);
      return COLVARS_INPUT_ERROR;
    }
    return aid;
  }

  int init_atom(int atom_number) override
  {
    int aid = (atom_number >= 1) ? (atom_number - 1) : -1;
    for (size_t i = 0; i < atoms_ids.size(); i++) {
      if (atoms_ids[i] == aid) {
        atoms_refcount[i] += 1;
        return i;
      }
    }
    if (atom_number < 1 || atom_number > eng->natoms) {
      check_atom_id(atom_number);          // reports the error (its return value is the positive error code)
      return COLVARS_INPUT_ERROR;
    }
    aid = atom_number - 1;
    int const index = add_atom_slot(aid);
    atoms_masses[index] = eng->mass[aid];
    atoms_charges[index] = eng->charge[aid];
    atoms_positions[index] = eng->pos[aid];
    updated_masses_ = updated_charges_ = true;
    return index;
  }

  // ---- replicas: colvarproxy_replicas over stream sockets between walker processes.
  // Every message is framed (1 byte tag 'D' data / 'B' barrier, 4 bytes length); the barrier goes
  // through walker 0 on the same sockets.  All reads and writes time out (rep_timeout_ms) so that a
  // broken protocol shows up as a communication error, never as a hang.
  bool rep_on() const { return eng->rep_fd.size() > 0 && eng->rep_num > 1; }
  int check_replicas_enabled() override { return rep_on() ? COLVARS_OK : COLVARS_NOT_IMPLEMENTED; }
  int replica_index() override { return rep_on() ? eng->rep_index : 0; }
  int num_replicas() override { return rep_on() ? eng->rep_num : 1; }
  bool rep_io(int fd, char *buf, size_t n, bool wr)
  {
    size_t done = 0;
    while (done < n) {
      struct pollfd pf; pf.fd = fd; pf.events = wr ? POLLOUT : POLLIN; pf.revents = 0;
      int pr = poll(&pf, 1, eng->rep_timeout_ms);
      if (pr == 0) return false;
      if (pr < 0) { if (errno == EINTR) continue; return false; }
      ssize_t k = wr ? ::write(fd, buf + done, n - done) : ::read(fd, buf + done, n - done);
      if (k < 0) { if (errno == EINTR || errno == EAGAIN) continue; return false; }
      if (k == 0) return false;
      done += (size_t) k;
    }
    return true;
  }
  bool rep_send_frame(int dest, char tag, char *data, int len)
  {
    if (dest < 0 || dest >= (int) eng->rep_fd.size() || eng->rep_fd[dest] < 0) return false;
    char hdr[5]; hdr[0] = tag; memcpy(hdr + 1, &len, 4);
    if (!rep_io(eng->rep_fd[dest], hdr, 5, true)) return false;
    if (len > 0 && !rep_io(eng->rep_fd[dest], data, (size_t) len, true)) return false;
    return true;
  }
  int rep_recv_frame(int src, char tag, char *data, int buf_len)
  {
    if (src < 0 || src >= (int) eng->rep_fd.size() || eng->rep_fd[src] < 0) return -1;
    char hdr[5]; int len = 0;
    if (!rep_io(eng->rep_fd[src], hdr, 5, false)) return -1;
    memcpy(&len, hdr + 1, 4);
    if (len < 0) return -1;
    int keep = std::min(len, buf_len);
    if (keep > 0 && !rep_io(eng->rep_fd[src], data, (size_t) keep, false)) return -1;
    for (int rest = len - keep; rest > 0; ) {       // message longer than the buffer: drop the tail
      char junk[256]; int k = std::min(rest, 256);
      if (!rep_io(eng->rep_fd[src], junk, (size_t) k, false)) return -1;
      rest -= k;
    }
    if (hdr[0] != tag) return -1;
    if (len > buf_len) return -1;                   // as MPI_Recv: a message longer than the buffer is an error (MPI_ERR_TRUNCATE)
    return keep;
  }
  void rep_maybe_die()
  {
    if (eng->rep_die_after < 0) return;
    if (eng->rep_die_after == 0) _exit(9);       // a walker that dies inside an exchange round: no output, no state file
    eng->rep_die_after--;
  }
  int replica_comm_send(char *msg_data, int msg_len, int dest_rep) override
  {
    if (!rep_on()) return COLVARS_NOT_IMPLEMENTED;
    rep_maybe_die();
    if (eng->in_biases_loop) eng->rep_in_parallel++;
    if (!rep_send_frame(dest_rep, 'D', msg_data, msg_len)) { eng->rep_errors++; return 0; }
    eng->rep_msgs_sent++;
    return msg_len;
  }
  int replica_comm_recv(char *msg_data, int buf_len, int src_rep) override
  {
    if (!rep_on()) return COLVARS_NOT_IMPLEMENTED;
    rep_maybe_die();
    if (eng->in_biases_loop) eng->rep_in_parallel++;
    int r = rep_recv_frame(src_rep, 'D', msg_data, buf_len);
    if (r < 0) { eng->rep_errors++; return 0; }
    eng->rep_msgs_recv++;
    return r;
  }
  void replica_comm_barrier() override
  {
    if (!rep_on()) return;
    rep_maybe_die();
    if (eng->in_biases_loop) eng->rep_in_parallel++;
    eng->rep_barriers++;
    char c = 0;
    if (eng->rep_index == 0) {
      for (int p = 1; p < eng->rep_num; p++) if (rep_recv_frame(p, 'B', &c, 0) < 0) eng->rep_errors++;
      for (int p = 1; p < eng->rep_num; p++) if (!rep_send_frame(p, 'B', &c, 0)) eng->rep_errors++;
    } else {
      if (!rep_send_frame(0, 'B', &c, 0)) eng->rep_errors++;
      if (rep_recv_frame(0, 'B', &c, 0) < 0) eng->rep_errors++;
    }
  }

  // ---- SMP: explicit schedules through the virtual interface
  smp_mode_t get_smp_mode() const override
  {
    if (eng->smp == "serial") return smp_mode_t::none;
    return smp_mode;
  }
  // (C12) run `order` (a list of item indices) on nthreads std::threads: the k-th entry goes to thread
  // eng->assign[k] when given, otherwise k mod nthreads; each thread runs its entries in list order
  void run_schedule(std::vector<int> const &order, std::function<void(int, int)> const &work, bool raise_depth = false)
  {
    int nt = std::max(1, eng->nthreads);
    if (nt == 1) {
      if (raise_depth) cvm::increase_depth();
      for (int i : order) work(i, 0);
      if (raise_depth) cvm::decrease_depth();
      return;
    }
    std::vector<std::vector<int> > q(nt);
    for (size_t k = 0; k < order.size(); k++) {
      int t = (k < eng->assign.size()) ? eng->assign[k] : (int) (k % nt);
      if (t < 0 || t >= nt) t = (int) (k % nt);
      q[t].push_back(order[k]);
    }
    cvm::depth();    // allocate the per-thread depth counters before the threads start
    std::vector<std::thread> ths;
    for (int t = 0; t < nt; t++) {
      ths.emplace_back([&, t]() {
        my_thread_id = t;
        // as colvarproxy_smp::smp_loop: every thread that runs items raises its own depth counter
        if (raise_depth) cvm::increase_depth();
        for (int i : q[t]) work(i, t);
        if (raise_depth) cvm::decrease_depth();
      });
    }
    for (auto &th : ths) th.join();
  }
  std::vector<int> schedule_order(int n)
  {
    std::vector<int> order;
    if ((int) eng->perm.size() >= n && n > 0) {
      for (size_t i = 0; i < eng->perm.size(); i++)
        if (eng->perm[i] >= 0 && eng->perm[i] < n) order.push_back(eng->perm[i]);
    } else {
      for (int i = 0; i < n; i++) order.push_back(i);
    }
    return order;
  }
  int smp_loop(int n_items, std::function<int(int)> const &worker) override
  {
    {
      colvarmodule *cv = cvm::main();
      last_cvc_items.clear();
      cvc_loop_ran = true;
      if ((int) cv->variables_active_smp()->size() == n_items) {
        for (int i = 0; i < n_items; i++)
          last_cvc_items.push_back(std::make_pair((*(cv->variables_active_smp()))[i]->name,
                                                  (*(cv->variables_active_smp_items()))[i]));
      }
    }
    if (eng->smp == "omp") {
      // (C12) the library's own loop; record which OpenMP thread ran each item (every entry is written by one thread only)
      last_item_threads.assign(n_items, -1);
      std::vector<int> *rec = &last_item_threads;
      loops_running++;
      int const ec = colvarproxy_smp::smp_loop(n_items, [rec, &worker](int i) { (*rec)[i] = colvarproxy_smp_thread(); return worker(i); });
      loops_running--;
      return ec;
    }
    last_item_threads.clear();
    // explicit permutation, items dealt to nthreads std::threads
    std::vector<int> order = schedule_order(n_items);
    int error_code = COLVARS_OK;
    std::vector<int> codes(std::max(1, eng->nthreads), 0);
    loops_running++;
    run_schedule(order, [&](int i, int t) { codes[t] |= worker(i); }, true);
    loops_running--;
    for (size_t t = 0; t < codes.size(); t++) error_code |= codes[t];
    return error_code;
  }
  void record_bias_items(bool with_script)
  {
    colvarmodule *cv = cvm::main();
    last_bias_items.clear();
    bias_loop_ran = true;
    for (size_t i = 0; i < cv->biases_active()->size(); i++) last_bias_items.push_back((*(cv->biases_active()))[i]->name);
    if (with_script) last_bias_items.push_back("<script>");
  }
  // items 0..n-1 are the active biases; item n (only with_script) is the scripted-force task
  int biases_schedule(bool with_script)
  {
    colvarmodule *cv = cvm::main();
    int n = cv->biases_active()->size();
    std::vector<int> order = schedule_order(n + (with_script ? 1 : 0));
    run_schedule(order, [&](int i, int) {
      if (i == n) cv->calc_scripted_forces();
      else (*(cv->biases_active()))[i]->update();
    });
    return cvm::get_error();
  }
  int smp_biases_loop() override
  {
    record_bias_items(false);
    struct in_loop { vsim_engine *e; in_loop(vsim_engine *e_) : e(e_) { e->in_biases_loop = true; } ~in_loop() { e->in_biases_loop = false; } } guard(eng);
    if (eng->smp == "omp") return colvarproxy_smp::smp_biases_loop();
    return biases_schedule(false);
  }
  int smp_biases_script_loop() override
  {
    record_bias_items(true);
    struct in_loop { vsim_engine *e; in_loop(vsim_engine *e_) : e(e_) { e->in_biases_loop = true; } ~in_loop() { e->in_biases_loop = false; } } guard(eng);
    if (eng->smp == "omp") return colvarproxy_smp::smp_biases_script_loop();
    return biases_schedule(true);
  }
  // (C12) scripted variables: `scriptedFunction vsum` = the sum of all component values (what a Tcl procedure calc_vsum would return);
  // its gradient with respect to every component is 1
  int run_colvar_callback(std::string const &name, std::vector<const colvarvalue *> const &cvcs, colvarvalue &value) override
  {
    if (name != "vsum" && name != "vdbl") return COLVARS_NOT_IMPLEMENTED;
    note_callback("run_colvar_callback");
    cvm::real sum = 0.0;
    for (size_t i = 0; i < cvcs.size(); i++) sum += cvcs[i]->real_value;
    // the procedure leaves its result in the interpreter's single result slot; the caller fetches it afterwards
    interp_result = (name == "vdbl") ? 2.0 * sum : sum;
    std::this_thread::yield();
    value = colvarvalue(interp_result);
    return COLVARS_OK;
  }
  int run_colvar_gradient_callback(std::string const &name, std::vector<const colvarvalue *> const & /* cvcs */,
                                   std::vector<cvm::matrix2d<cvm::real> > &gradient) override
  {
    if (name != "vsum" && name != "vdbl") return COLVARS_NOT_IMPLEMENTED;
    note_callback("run_colvar_gradient_callback");
    for (size_t i = 0; i < gradient.size(); i++) gradient[i][0][0] = (name == "vdbl") ? 2.0 : 1.0;
    return COLVARS_OK;
  }
  // (C12) the scripted-force task: what a `calc_colvar_forces` Tcl procedure would do with `cv colvar <v> addforce <f>`
  int run_force_callback() override
  {
    if (force_callback) return force_callback();
    if (eng->force_script.size()) {
      // (C08) full script commands given by `forcecmd cv colvar <v> addforce <f>` (`forcecmd clear` empties the list): goes through the script layer
      int err = COLVARS_OK;
      for (auto const &words : eng->force_script) {
        std::vector<unsigned char *> argv;
        for (auto const &w : words) argv.push_back((unsigned char *) w.c_str());
        if (run_colvarscript_command(argv.size(), argv.data()) != COLVARS_OK) err = COLVARS_ERROR;
      }
      return err;
    }
    if (!eng->script_forces.size()) return COLVARS_NOT_IMPLEMENTED;
    for (auto &p : eng->script_forces) {
      colvar *c = cvm::colvar_by_name(p.first);
      if (!c) return COLVARS_ERROR;
      c->add_bias_force(colvarvalue(p.second));
    }
    return COLVARS_OK;
  }
  int smp_thread_id() override
  {
    if (eng->smp == "omp") return colvarproxy_smp::smp_thread_id();
    if (eng->smp == "serial") return -1;
    return my_thread_id;
  }
  int smp_num_threads() override
  {
    if (eng->smp == "omp") return colvarproxy_smp::smp_num_threads();
    if (eng->smp == "serial") return -1;
    return std::max(1, eng->nthreads);
  }
  int smp_lock() override
  {
    if (eng->smp == "omp") return colvarproxy_smp::smp_lock();
    smp_mutex.lock();
    return COLVARS_OK;
  }
  int smp_trylock() override
  {
    if (eng->smp == "omp") return colvarproxy_smp::smp_trylock();
    return smp_mutex.try_lock() ? COLVARS_OK : COLVARS_ERROR;
  }
  int smp_unlock() override
  {
    if (eng->smp == "omp") return colvarproxy_smp::smp_unlock();
    smp_mutex.unlock();
    return COLVARS_OK;
  }

  // ---- one engine step
  int step()
  {
    if (first_step) {
      first_step = false;
      b_simulation_continuing = next_is_boundary;
    } else {
      if (next_is_boundary) {
        b_simulation_continuing = true;
      } else {
        colvarmodule::it++;
        b_simulation_continuing = false;
      }
    }
    next_is_boundary = false;
    update_cell();
    for (size_t i = 0; i < atoms_ids.size(); i++) {
      int aid = atoms_ids[i];
      atoms_positions[i] = eng->pos[aid];
      if (eng->provide_total_forces && (!eng->tf_only_on_request || total_force_requested)) {
        if (eng->same_step) {
          atoms_total_forces[i] = eng->eforce[aid];
        } else {
          atoms_total_forces[i] = eng->prev_total[aid];
        }
      } else {
        atoms_total_forces[i] = cvm::rvector(0, 0, 0);
      }
      atoms_new_colvar_forces[i].reset();
    }
    bias_energy = 0.0;
    energies_added.clear();
    int err = colvars->calc();
    // what acted on each atom at this step (for the lagged convention)
    for (int a = 0; a < eng->natoms; a++) eng->prev_total[a] = eng->eforce[a];
    if (eng->include_cv_forces) {
      for (size_t i = 0; i < atoms_ids.size(); i++) {
        if (atoms_refcount[i] > 0) eng->prev_total[atoms_ids[i]] += atoms_new_colvar_forces[i];
      }
    }
    return err;
  }

  size_t refcount(size_t i) const { return atoms_refcount[i]; }
};

thread_local int vsim_proxy::my_thread_id = 0;


static inline std::string vs_hex(double x)
{
  char buf[64];
  snprintf(buf, sizeof(buf), "%a", x);
  return std::string(buf);
}

static inline std::string vs_hex(colvarvalue const &v)
{
  std::string s;
  switch (v.type()) {
  case colvarvalue::type_scalar:
    return vs_hex(v.real_value);
  case colvarvalue::type_3vector:
  case colvarvalue::type_unit3vector:
  case colvarvalue::type_unit3vectorderiv:
    return vs_hex(v.rvector_value.x) + " " + vs_hex(v.rvector_value.y) + " " + vs_hex(v.rvector_value.z);
  case colvarvalue::type_quaternion:
  case colvarvalue::type_quaternionderiv:
    return vs_hex(v.quaternion_value.q0) + " " + vs_hex(v.quaternion_value.q1) + " " +
           vs_hex(v.quaternion_value.q2) + " " + vs_hex(v.quaternion_value.q3);
  case colvarvalue::type_vector:
    for (size_t i = 0; i < v.vector1d_value.size(); i++) {
      if (i) s += " ";
      s += vs_hex(v.vector1d_value[i]);
    }
    return s;
  default:
    return "notset";
  }
}

static inline std::string vs_errclass(int code_bits)
{
  // small enum from the module's error bits; messages are never compared
  if (code_bits == COLVARS_OK) return "ok";
  std::string s;
  if (code_bits & COLVARS_INPUT_ERROR) s += "input,";
  if (code_bits & COLVARS_FILE_ERROR) s += "file,";
  if (code_bits & COLVARS_BUG_ERROR) s += "bug,";
  if (code_bits & COLVARS_NOT_IMPLEMENTED) s += "notimpl,";
  if (code_bits & COLVARS_MEMORY_ERROR) s += "memory,";
  if (code_bits & COLVARS_NO_SUCH_FRAME) s += "noframe,";
  if (s.empty()) s = "error,";
  s.pop_back();
  return s;
}


// Scenario interpreter -------------------------------------------------------------------

struct vsim_session {
  vsim_engine eng;
  vsim_proxy *proxy = NULL;
  std::ostream *out;
  bool quiet = true;
  std::map<std::string, bool> show;   // which observables to print after each step
  std::ofstream logfile;

  vsim_session(std::ostream *o) : out(o)
  {
    show["cv"] = true; show["energy"] = true; show["bias"] = true; show["atomf"] = true;
    show["tf"] = false; show["af"] = false; show["err"] = true; show["items"] = false;
  }
  ~vsim_session() { if (proxy) { delete proxy; proxy = NULL; } }

  void fresh()
  {
    if (proxy) { delete proxy; proxy = NULL; }
    proxy = new vsim_proxy(&eng, quiet);
    if (logfile.is_open()) proxy->logos = &logfile;
  }

  static double num(std::string const &s) { return strtod(s.c_str(), NULL); }

  void print_step(int err)
  {
    std::ostream &o = *out;
    colvarmodule *cv = proxy->colvars;
    o << "STEP " << cvm::step_absolute();
    if (show["err"]) o << " err=" << vs_errclass(err | cvm::get_error());
    o << "\n";
    if (proxy->callback_violations.load() > 0) {
      o << "CBVIOL " << proxy->callback_violations.load() << " " << proxy->first_callback_violation << "\n";
      proxy->callback_violations = 0;
    }
    if (show["energy"]) o << "ENERGY " << vs_hex(proxy->bias_energy) << "\n";
    if (show["items"]) {
      if (proxy->cvc_loop_ran) {
        o << "ITEMS";
        for (auto &p : proxy->last_cvc_items) o << " " << p.first << ":" << p.second;
        o << "\n";
      }
      if (proxy->cvc_loop_ran && proxy->last_item_threads.size()) {
        o << "ITHREADS";
        for (int t : proxy->last_item_threads) o << " " << t;
        o << "\n";
      }
      if (proxy->bias_loop_ran) {
        o << "BITEMS";
        for (auto &n : proxy->last_bias_items) o << " " << n;
        o << "\n";
      }
      proxy->cvc_loop_ran = proxy->bias_loop_ran = false;
    }
    if (show["cv"]) {
      for (colvar *c : *(cv->variables())) {
        o << "CV " << c->name << " " << vs_hex(c->value()) << "\n";
        if (show["tf"]) o << "TF " << c->name << " " << vs_hex(c->total_force()) << "\n";
        if (show["af"]) o << "AF " << c->name << " " << vs_hex(c->applied_force()) << "\n";
      }
    }
    if (show["bias"]) {
      for (colvarbias *b : cv->biases) {
        o << "BIAS " << b->name << " " << vs_hex(b->get_energy()) << "\n";
      }
    }
    if (show["atomf"]) {
      std::vector<std::pair<int, size_t> > ids;
      for (size_t i = 0; i < proxy->get_atom_ids()->size(); i++)
        if (proxy->refcount(i) > 0) ids.push_back(std::make_pair((*proxy->get_atom_ids())[i], i));
      std::sort(ids.begin(), ids.end());
      for (auto &p : ids) {
        cvm::rvector const &f = (*proxy->get_atom_applied_forces())[p.second];
        o << "ATOMF " << (p.first + 1) << " " << vs_hex(f.x) << " " << vs_hex(f.y) << " " << vs_hex(f.z) << "\n";
      }
    }
  }

  // returns false on EOF
  bool run(std::istream &is)
  {
    std::string line;
    while (std::getline(is, line)) {
      std::istringstream ls(line);
      std::string cmd;
      if (!(ls >> cmd) || cmd[0] == '#') continue;
      std::vector<std::string> a;
      std::string w;
      while (ls >> w) a.push_back(w);
      if (!exec(cmd, a, is, line)) return true;
    }
    return false;
  }

  virtual bool exec_extra(std::string const &, std::vector<std::string> const &, std::istream &) { return false; }

  bool exec(std::string const &cmd, std::vector<std::string> const &a, std::istream &is, std::string const &line)
  {
    std::ostream &o = *out;
    if (cmd == "natoms") { eng.resize(atoi(a[0].c_str())); }
    else if (cmd == "mass") { eng.mass[atoi(a[0].c_str()) - 1] = num(a[1]); }
    else if (cmd == "charge") { eng.charge[atoi(a[0].c_str()) - 1] = num(a[1]); }
    else if (cmd == "cell") { eng.has_cell = true; for (int k = 0; k < 3; k++) eng.L[k] = num(a[k]); }
    else if (cmd == "nocell") { eng.has_cell = false; }
    else if (cmd == "dt") { eng.dt = num(a[0]); if (proxy) { proxy->set_integration_timestep(eng.dt); proxy->colvars->update_engine_parameters(); } }
    else if (cmd == "temperature") { eng.temperature = num(a[0]); if (proxy) { proxy->set_target_temperature(eng.temperature); proxy->colvars->update_engine_parameters(); } }
    else if (cmd == "samestep") { eng.same_step = atoi(a[0].c_str()) != 0; }
    else if (cmd == "totalforces") { eng.provide_total_forces = atoi(a[0].c_str()) != 0; }
    else if (cmd == "tfonrequest") { eng.tf_only_on_request = atoi(a[0].c_str()) != 0; }
    else if (cmd == "includecv") { eng.include_cv_forces = atoi(a[0].c_str()) != 0; }
    else if (cmd == "prefix") { eng.prefix = a.size() ? a[0] : ""; }
    else if (cmd == "outprefix") {
      // change the engine's output prefix of the live module and let it (re)open its outputs, as
      // engines do after reading the configuration and at the start of a run with a new output name
      eng.prefix = a.size() ? a[0] : "";
      cvm::clear_error();
      proxy->set_output_prefix(eng.prefix);
      int err = proxy->colvars->setup_output();
      o << "OUTPREFIX err=" << vs_errclass(err | cvm::get_error()) << "\n";
      cvm::clear_error();
    }
    else if (cmd == "restartfreq") { eng.restart_freq = atoi(a[0].c_str()); }
    else if (cmd == "gauss") { eng.gauss.clear(); eng.gauss_pos = 0; for (auto &s : a) eng.gauss.push_back(num(s)); }
    else if (cmd == "smp") { eng.smp = a[0]; if (a.size() > 1) eng.nthreads = atoi(a[1].c_str()); }
    else if (cmd == "replicas") {
      // replicas <index> <num> <fd to walker 0> <fd to walker 1> ... (-1 for itself) | replicas off
      eng.rep_fd.clear(); eng.rep_index = 0; eng.rep_num = 1;
      if (a.size() >= 2 && a[0] != "off") {
        eng.rep_index = atoi(a[0].c_str()); eng.rep_num = atoi(a[1].c_str());
        for (size_t i = 2; i < a.size(); i++) eng.rep_fd.push_back(atoi(a[i].c_str()));
        eng.rep_fd.resize(eng.rep_num, -1);
      }
    }
    else if (cmd == "reptimeout") { eng.rep_timeout_ms = atoi(a[0].c_str()); }
    else if (cmd == "repdie") { eng.rep_die_after = atol(a[0].c_str()); }
    else if (cmd == "repstat") {
      o << "REPSTAT index=" << eng.rep_index << " num=" << eng.rep_num << " sent=" << eng.rep_msgs_sent
        << " recv=" << eng.rep_msgs_recv << " barriers=" << eng.rep_barriers << " errors=" << eng.rep_errors << " parallel=" << eng.rep_in_parallel << "\n";
    }
    else if (cmd == "sync") { o << "SYNC" << (a.size() ? " " + a[0] : std::string("")) << "\n"; o.flush(); }
    else if (cmd == "perm") { eng.perm.clear(); for (auto &s : a) eng.perm.push_back(atoi(s.c_str())); }
    else if (cmd == "assign") { eng.assign.clear(); for (auto &s : a) eng.assign.push_back(atoi(s.c_str())); }
    else if (cmd == "forcescript") { eng.script_forces.clear(); for (size_t i = 0; i + 1 < a.size(); i += 2) eng.script_forces.push_back(std::make_pair(a[i], num(a[i + 1]))); }
    else if (cmd == "quiet") { quiet = atoi(a[0].c_str()) != 0; if (proxy) proxy->quiet = quiet; }
    else if (cmd == "log") { if (logfile.is_open()) logfile.close(); logfile.open(a[0].c_str()); if (proxy) proxy->logos = &logfile; }
    else if (cmd == "show") { for (size_t i = 0; i + 1 < a.size(); i += 2) show[a[i]] = atoi(a[i + 1].c_str()) != 0; }
    else if (cmd == "new" || cmd == "fresh") { fresh(); o << "FRESH\n"; }
    else if (cmd == "config" || cmd == "configfile") {
      int err;
      cvm::clear_error();
      if (cmd == "configfile") {
        err = proxy->colvars->read_config_file(a[0].c_str());
      } else {
        std::string term = a.size() ? a[0] : "EOF";
        std::string conf, l;
        while (std::getline(is, l)) {
          if (l == term) break;
          conf += l + "\n";
        }
        err = proxy->colvars->read_config_string(conf);
      }
      o << "CONFIG err=" << vs_errclass(err | cvm::get_error()) << " ncv=" << proxy->colvars->variables()->size()
        << " nbias=" << proxy->colvars->biases.size() << "\n";
      cvm::clear_error();
    }
    else if (cmd == "pos") { eng.pos[atoi(a[0].c_str()) - 1] = cvm::rvector(num(a[1]), num(a[2]), num(a[3])); }
    else if (cmd == "eforce") { eng.eforce[atoi(a[0].c_str()) - 1] = cvm::rvector(num(a[1]), num(a[2]), num(a[3])); }
    else if (cmd == "runboundary") { proxy->next_is_boundary = true; }
    else if (cmd == "setstep") { proxy->colvars->set_initial_step(atol(a[0].c_str())); }
    else if (cmd == "step") {
      cvm::clear_error();
      int err = proxy->step();
      print_step(err);
    }
    else if (cmd == "save") {
      proxy->colvars->binary_restart = (a[0] == "binary");
      cvm::clear_error();
      int err = proxy->colvars->write_restart_file(a[1]);
      o << "SAVE err=" << vs_errclass(err | cvm::get_error()) << "\n";
    }
    else if (cmd == "load") {
      cvm::clear_error();
      proxy->set_input_prefix(a[0]);
      int err = proxy->colvars->setup_input();
      o << "LOAD err=" << vs_errclass(err | cvm::get_error()) << " it=" << cvm::step_absolute() << "\n";
      cvm::clear_error();
    }
    else if (cmd == "loadbuf" || cmd == "loadstr") {
      // the other two entry points of setup_input(): an unformatted state in a memory buffer
      // (set_input_state_buffer, as engines with their own checkpoint files do) and a formatted one in a string
      cvm::clear_error();
      std::ifstream f(a[0].c_str(), std::ios::binary);
      std::string content((std::istreambuf_iterator<char>(f)), std::istreambuf_iterator<char>());
      int err = COLVARS_OK;
      if (cmd == "loadbuf") {
        std::vector<unsigned char> buf(content.begin(), content.end());
        err |= proxy->colvars->set_input_state_buffer(buf.size(), buf.data());
      } else {
        proxy->input_stream_from_string("input state string", content);
      }
      err |= proxy->colvars->setup_input();
      o << "LOAD err=" << vs_errclass(err | cvm::get_error()) << " it=" << cvm::step_absolute() << "\n";
      cvm::clear_error();
    }
    else if (cmd == "postrun") {
      cvm::clear_error();
      int err = proxy->post_run();
      o << "POSTRUN err=" << vs_errclass(err | cvm::get_error()) << "\n";
    }
    else if (cmd == "script" || cmd == "scriptq") {
      std::vector<std::string> words(a);
      if (cmd == "scriptq") {   // words may be double-quoted: scriptq cv colvar x cvcflags "0 1 1"
        words.clear();
        size_t p = line.find("scriptq") + 7;
        while (p < line.size()) {
          while (p < line.size() && isspace((unsigned char) line[p])) p++;
          if (p >= line.size()) break;
          std::string w;
          if (line[p] == '"') { p++; while (p < line.size() && line[p] != '"') w += line[p++]; p++; }
          else { while (p < line.size() && !isspace((unsigned char) line[p])) w += line[p++]; }
          words.push_back(w);
        }
      }
      std::vector<unsigned char *> argv;
      for (auto &s : words) argv.push_back((unsigned char *) s.c_str());
      cvm::clear_error();
      int err = run_colvarscript_command(argv.size(), argv.data());
      std::string res = get_colvarscript_result();
      std::replace(res.begin(), res.end(), '\n', ' ');
      o << "SCRIPT err=" << (err == COLVARS_OK ? "ok" : "error") << " result=" << res << "\n";
      cvm::clear_error();
    }
    else if (cmd == "unbuffered") { o << std::unitbuf; }   // every line reaches the pipe at once (C11: processes that get killed)
    else if (cmd == "forcecmd") { if (a.size() == 1 && a[0] == "clear") eng.force_script.clear(); else eng.force_script.push_back(a); }
    else if (cmd == "echo") { o << line << "\n"; }
    else if (cmd == "quit") { return false; }
    else if (!exec_extra(cmd, a, is)) {
      o << "UNKNOWN-COMMAND " << cmd << "\n";
    }
    return true;
  }
};

#endif
