// vsim: run a scenario file (argv[1], or stdin) through the engine simulator, print observables.
#include "vsim.h"
int main(int argc, char **argv)
{
  vsim_session s(&std::cout);
  if (argc > 1 && std::string(argv[1]) != "-") {
    std::ifstream f(argv[1]);
    if (!f) { std::cerr << "cannot open " << argv[1] << "\n"; return 2; }
    s.run(f);
  } else {
    s.run(std::cin);
  }
  std::cout.flush();
  return 0;
}
